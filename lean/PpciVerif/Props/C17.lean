import PpciVerif.Spec.Elf
import PpciVerif.Model.ElfW
import PpciVerif.Gen.ElfHeaders
import PpciVerif.Proofs.ElfW
import PpciVerif.Proofs.ElfW3
/-!
# C17 — ELF output is read back faithfully by independent ELF readers  (shape P)

Model : `Model.ElfW.exportObject` (= `ElfWriter.export_object` for ET_REL / ET_EXEC), parametrised
        with the header `_fields` tables; tied to /repo by `Gen.ElfHeaders` (tables dumped from the
        live classes) and by the byte-exact differential run of harness/c17.py.
Spec  : `Spec.Elf.read`, an ELF reader written from the gABI.

Property theorems only.  Everything is for ALL objects (no bound on sizes / counts) and for both
classes and byte orders; the hypothesis `write … = .ok file` is exactly "ppci wrote a file"
(`struct.error`, `KeyError`, … mean that no file exists).

What is proved at full generality
* `layouts_match_gabi`, `sizes_match_gabi` — ppci's header classes are the gABI structures
* `field_roundtrip`, `signed_field_roundtrip`, `record_roundtrip`, `table_roundtrip`
* `string_table_lookup`
* `symbols_locals_first`, `symbols_permutation`, `reader_accepts_symbol_order`, `symbol_info_roundtrip`, `rela_info_roundtrip_*`,
  `symbol_entry_read_back`, `rela_entry_read_back_partial` (guard: relocation type fits the class's type field)
* `align_to_aligned`, `written_chunk_stays`
* `header_read_back` — class, byte order, e_type, e_machine, entry point
* `segments_hold_images`, `page_loader_sees_image` — every PT_LOAD segment = Image.data at its vaddr

* `section_table_read_back_partial` — (1) every object section in the section header table the reader finds at
  `e_shoff`: name (through `e_shstrndx`), address, size, alignment, file bytes = data; (4) image sections inside
  their PT_LOAD segment at the congruent offset
* `symbol_and_rela_tables_partial` — (2) .symtab header + contents = null entry + entries of locals-then-globals with
  value / binding / type / section NAME / SHN_ABS / UND; (3) one RELA table per section: offset, symbol (through the
  symtab order), type (arch parameter), addend
* `read_write_partial` — the composition for one file under `Guard` (NUL-free names, unique section names, image
  sections ⊆ object sections; one witness per guard)

What is NOT proved (`read_write_full`, kept below as a `def`): the last step from the reader's primitives
(`readTable`, `slice`, `strAt`, `mkSymbol`, `mkRela`, `checkInfo` — all covered by the theorems) to the reader's
table drivers `readSections` / `readSymTabs` / `readRelaTabs` and hence `Spec.Elf.read file = .ok v` as ONE equation
(these also need `sh_addr % sh_addralign = 0`, power-of-two alignments and `r_type` fitting the class, which the writer
does not enforce).  That last step is evaluated on every real file by harness/c17.py (Lean reader on real bytes).
-/
namespace Props.C17
open Spec.Elf Model.ElfW Proofs.ElfW

/-! ### translation tie: `headers.py` = gABI -/

/-- the `_fields` of ppci's header classes (regenerated from the live classes on every run) are the
    gABI structures — order, C types — packed in the byte order announced by `EI_DATA` -/
theorem layouts_match_gabi (c : Cls) (e : End) : Gen.ElfHeaders.layouts c e = gabiLayouts c e := by
  cases c <;> cases e <;> decide

/-- the classes' `size` attributes are the gABI structure sizes -/
theorem sizes_match_gabi (c : Cls) (e : End) :
    Gen.ElfHeaders.sizes c e =
      [recSize (ehdr c), recSize (phdr c), recSize (shdr c), recSize (sym c), recSize (rela c), recSize (dyn c)] := by
  cases c <;> cases e <;> decide

/-! ### fields, records, tables -/

/-- an unsigned field that `struct.pack` accepted is read back by the gABI reader as the value -/
theorem field_roundtrip (e : End) (f : Field) (v : Int) (bs : List Nat) (hs : f.fmt.signed = false)
    (h : encode (toP e f) v = .ok bs) : bs.length = f.fmt.size ∧ (uval e bs : Int) = v := by
  have ⟨h1, h2, h3⟩ := encode_ok h
  simp only [toP] at h1 h2 h3
  rw [endOf_orderOf] at h2
  exact ⟨h1, by rw [h2]; exact (rawOf_of_fits_unsigned hs h3).2⟩

/-- a signed field (`r_addend`, `d_tag`) is read back in two's complement as the value -/
theorem signed_field_roundtrip (e : End) (f : Field) (v : Int) (bs : List Nat) (hs : f.fmt.signed = true)
    (h : encode (toP e f) v = .ok bs) : toSigned (8 * f.fmt.size) (uval e bs) = v := by
  have ⟨_, h2, h3⟩ := encode_ok h
  simp only [toP] at h2 h3
  rw [endOf_orderOf] at h2
  rw [h2]; exact toSigned_rawOf hs h3

/-- `BaseHeader.serialize` followed by the gABI record reader returns every field, whatever follows -/
theorem record_roundtrip (e : End) (fs : List Field) (h : Hdr) (bs rest : List Nat)
    (hser : serialize (fs.map (toP e)) h = .ok bs) :
    readRec e fs (bs ++ rest) = some (recOf fs h) ∧ bs.length = recSize fs :=
  let ⟨a, b, _⟩ := serialize_read e fs h bs rest hser
  ⟨a, b⟩

/-- a table of records (program headers, section headers, symbols, RELA entries) written back to back at
    offset `pre.length` is read back entry by entry -/
theorem table_roundtrip (e : End) (fs : List Field) (hs : List Hdr) (bytes pre post : List Nat)
    (hser : serializeAll (fs.map (toP e)) hs = .ok bytes) :
    readTable (pre ++ bytes ++ post) e fs (recSize fs) pre.length hs.length = some (hs.map (recOf fs)) :=
  (serializeAll_read e fs hs bytes pre post hser).1

/-! ### string table -/

/-- `StringTable.get_name`: the offset handed out resolves (gABI string-table lookup) to the name,
    and so does every offset handed out before — also after any number of later insertions -/
theorem string_table_lookup (s : St) (txt : List Nat) (hn : NoNul txt) (hw : StrWF s) :
    StrWF (s.getString txt).1 ∧ strAt (s.getString txt).1.strtab (s.getString txt).2 = some txt :=
  let ⟨a, b, _⟩ := getString_spec s txt hn hw
  ⟨a, b⟩

/-! ### symbol table order, `st_info`, `r_info` -/

/-- all local symbols precede all global ones; `sh_info = #locals + 1` is the index of the first non-local
    (index 0 is the reserved null symbol) -/
theorem symbols_locals_first (syms : List Sym) :
    let n := (syms.filter (fun s => !s.isGlobal)).length
    (∀ s ∈ (orderSymbols syms).take n, s.isGlobal = false) ∧
    (∀ s ∈ (orderSymbols syms).drop n, s.isGlobal = true) :=
  orderSymbols_locals_first syms

/-- no symbol is lost or duplicated by the reordering -/
theorem symbols_permutation (syms : List Sym) : (orderSymbols syms).Perm syms := orderSymbols_perm syms

/-- the gABI reader's check of `sh_info` ("one greater than the index of the last local symbol", all locals
    first) accepts the writer's table: null symbol, then `orderSymbols`, with `sh_info = #locals + 1` -/
theorem reader_accepts_symbol_order (syms : List Sym) (null : Symbol) (h0 : null.bind = 0) (f : Sym → Symbol)
    (hf : ∀ s, (f s).bind = if s.isGlobal then 1 else 0) :
    checkInfo ((syms.filter (fun s => !s.isGlobal)).length + 1) (null :: (orderSymbols syms).map f) = .ok () :=
  checkInfo_ordered syms null h0 f hf

/-- `st_info = (bind << 4) | type` splits back (ELF_ST_BIND / ELF_ST_TYPE) -/
theorem symbol_info_roundtrip (g : Bool) (t : SymTyp) :
    ((if g then 1 else 0) * 16 + t.st) / 16 = (if g then 1 else 0) ∧
    ((if g then 1 else 0) * 16 + t.st) % 16 = t.st := by
  cases g <;> cases t <;> decide

/-- ELF64: `r_info = (sym << 32) + type` splits back for every 32-bit type -/
theorem rela_info_roundtrip_64 (sym ty : Nat) (h : ty < 4294967296) :
    (sym * 4294967296 + ty) / 4294967296 = sym ∧ (sym * 4294967296 + ty) % 4294967296 = ty := by
  omega

/-- ELF32: `r_info = (sym << 8) + type` splits back for every 8-bit type -/
theorem rela_info_roundtrip_32 (sym ty : Nat) (h : ty < 256) :
    (sym * 256 + ty) / 256 = sym ∧ (sym * 256 + ty) % 256 = ty := by
  omega

/-- a symbol entry as `write_symbol_table` builds it (`Model.ElfW.symHdr`), once packed successfully, is read back by
    the reader's own symbol parser: name through the string table, value, size, binding, type, section index -/
theorem symbol_entry_read_back (c : Cls) (strtab name : List Nat) (nsec nm shndx value size : Nat) (g : Bool) (t : SymTyp)
    (hname : strAt strtab nm = some name)
    (hfits : ∀ f ∈ sym c, fits f.fmt ((symHdr nm g t shndx value size).get f.name) = true)
    (hndx : shndx < nsec ∨ SHN_LORESERVE ≤ shndx) :
    mkSymbol strtab nsec (recOf (sym c) (symHdr nm g t shndx value size)) =
      .ok { name := name, value := value, size := size, bind := if g then 1 else 0, type := t.st, other := 0,
            shndx := shndx } :=
  mkSymbol_symHdr c strtab name nsec nm shndx value size g t hname hfits hndx

/-- a RELA entry as `write_rela_table` builds it (`Model.ElfW.relaHdr`), once packed successfully, is read back by the
    reader's own entry parser: offset, symbol index, type, signed addend.  The bound on the type is the width of the
    type field of `r_info` in the class (8 bits in ELF32: `(r_sym << 8) + r_type` would corrupt the index otherwise). -/
theorem rela_entry_read_back_partial (c : Cls) (off rsym rtype nsyms : Nat) (add : Int)
    (hfits : ∀ f ∈ rela c, fits f.fmt ((relaHdr c off rsym rtype add).get f.name) = true)
    (hs : rsym < nsyms) (ht : rtype < (match c with | .c32 => 256 | .c64 => 4294967296)) :
    mkRela c nsyms (recOf (rela c) (relaHdr c off rsym rtype add)) =
      .ok { offset := off, sym := rsym, type := rtype, addend := add } :=
  mkRela_relaHdr c off rsym rtype nsyms add hfits hs ht

/-! ### layout of the file -/

/-- `align_to`: afterwards the file position is a multiple of the alignment and only zeros were added -/
theorem align_to_aligned (s s' : St) (a : Nat) (h : s.alignTo a = .ok s') :
    s'.tell % a = 0 ∧ ∃ k, s' = s.write (zeros k) :=
  let ⟨_, b, c⟩ := alignTo_spec h
  ⟨c, _, b⟩

/-- what was written at offset `off` is still there, unchanged, in the final file: every later step of the
    writer (sections, symbol table, RELA tables, string table, section header table) only appends -/
theorem written_chunk_stays (L : Layouts) (o : Obj) (t : EType) (s1 s2 s3 s4 s6 : St) (off : Nat) (d pre : List Nat)
    (h2 : writeSections s1 o.sections = .ok s2) (h3 : writeSymbolTable {} L o s2 = .ok s3)
    (h4 : (if t == .rel then writeRelaTable L o s3 else .ok s3) = .ok s4)
    (h6 : writeSectionHeaders L (writeStringTable s4) = .ok s6)
    (hpre : pre.length = s6.base) (hin : InBody s1 off d) :
    slice (pre ++ s6.body) off d.length = some d :=
  (hin.grow (export_chain h2 h3 h4 h6).grow).slice pre hpre

/-! ### end to end: header -/

/-- The gABI reader sees the class and byte order of the machine, `e_type`, `e_machine`, and — for an
    executable — the value of the entry symbol as entry point. -/
theorem header_read_back_partial (o : Obj) (t : EType) (file : List Nat)
    (h : write (gabiLayouts o.arch.cls o.arch.en) o t = .ok file) :
    readIdent file = .ok (o.arch.cls, o.arch.en) ∧
    ∃ hd, readEhdr file o.arch.cls o.arch.en = .ok hd ∧
      hd.get .e_type = t.val ∧ hd.get .e_machine = o.arch.machine ∧
      entryValue o t = .ok (hd.get .e_entry : Int) ∧ hd.get .e_phnum = phnum o t := by
  obtain ⟨s6, entry, shstrndx, hid, hrd, hent, hfits⟩ := export_readEhdr h
  refine ⟨hid, _, hrd, ?_, ?_, ?_, ?_⟩
  · have g := ehdr_field (c := o.arch.cls) .e_type ⟨.e_type, .H⟩ (by cases o.arch.cls <;> rfl) rfl hfits
    exact Int.ofNat_inj.mp g
  · have g := ehdr_field (c := o.arch.cls) .e_machine ⟨.e_machine, .H⟩ (by cases o.arch.cls <;> rfl) rfl hfits
    exact Int.ofNat_inj.mp g
  · have g := ehdr_field (c := o.arch.cls) .e_entry ⟨.e_entry, wordFmt o.arch.cls⟩ (by cases o.arch.cls <;> rfl)
      (by cases o.arch.cls <;> rfl) hfits
    rw [g]; exact hent
  · have g := ehdr_field (c := o.arch.cls) .e_phnum ⟨.e_phnum, .H⟩ (by cases o.arch.cls <;> rfl) rfl hfits
    exact Int.ofNat_inj.mp g

/-! ### end to end: loadable segments = memory images -/

/-- For every executable ppci writes, the gABI reader finds exactly one `PT_LOAD` segment per image, in
    order, with `p_vaddr = p_paddr = Image.address`, `p_filesz = p_memsz = len(Image.data)`, the segment's
    file bytes equal to `Image.data`, `p_align = 4096` and `p_offset ≡ p_vaddr (mod 4096)`. -/
theorem segments_hold_images_partial (o : Obj) (file : List Nat)
    (h : write (gabiLayouts o.arch.cls o.arch.en) o .exec = .ok file) :
    ∃ hd sgs, readEhdr file o.arch.cls o.arch.en = .ok hd ∧
      readSegments file o.arch.cls o.arch.en hd = .ok sgs ∧ All2 SegFaithful o.images sgs :=
  export_segments h

/-- gABI reader, any file: a segment's `data` are the `p_filesz` file bytes at `p_offset`; when
    `p_offset ≡ p_vaddr (mod 4096)` a loader that maps whole file pages (mmap, as the Linux kernel does)
    shows exactly these bytes at the addresses `p_vaddr + i`.  Together with `segments_hold_images_partial`:
    such a loader sees `Image.data[i]` at `Image.address + i` for every `i`. -/
theorem page_loader_sees_image (file : List Nat) (c : Cls) (e : End) (hd : Rec) (sgs : List Segment)
    (h : readSegments file c e hd = .ok sgs) (sg : Segment) (hsg : sg ∈ sgs)
    (hc : sg.offset % 4096 = sg.vaddr % 4096) (i : Nat) (hi : i < sg.filesz) :
    pageMappedByte file 4096 sg (sg.vaddr + i) = sg.data[i]? :=
  pageMapped_eq (readSegments_data h sg hsg) hc i hi

/-! ### end to end: the tables (one theorem per table, then the composition) -/

/-- (1) SECTION HEADER TABLE + (4) consistency with the program headers.  For every written file, under `Guard`:
    the reader's `readTable` at `e_shoff` (entry size and count from the ELF header it read) returns the null entry followed
    by the writer's headers (`ShTab`); the entry selected by `e_shstrndx` is a STRTAB whose file bytes are the string table;
    and for EVERY object section there is an entry with the section's address, size, alignment, type PROGBITS whose file
    bytes `[sh_offset, sh_offset+sh_size)` are exactly the section's data and whose `sh_name` resolves in that string table to
    the section's name (`SecRecOK`).  For executables every section of an image lies inside the image's PT_LOAD file range at
    `sh_offset = p_offset + (sh_addr - p_vaddr)`, within `[p_vaddr, p_vaddr + p_filesz)`, the segment being congruent
    (`ImgSecOK`). -/
theorem section_table_read_back_partial (o : Obj) (t : EType) (file : List Nat)
    (h : write (gabiLayouts o.arch.cls o.arch.en) o t = .ok file) (g : Guard o) :
    ∃ (s6 : St) (hd : Rec) (phs : List Hdr) (pre : List Nat), ShTab o t file s6 hd phs pre ∧
      (1 ≤ hd.get .e_shstrndx ∧ ∃ hs, phs[hd.get .e_shstrndx - 1]? = some hs ∧
        Rec.get (recOf (shdr o.arch.cls) hs) .sh_type = 3 ∧
        slice file (Rec.get (recOf (shdr o.arch.cls) hs) .sh_offset) (Rec.get (recOf (shdr o.arch.cls) hs) .sh_size)
          = some s6.strtab) ∧
      (∀ sec ∈ o.sections, ∃ (i : Nat) (h' : Hdr), phs[i]? = some h' ∧ SecRecOK file s6.strtab sec (recOf (shdr o.arch.cls) h')) ∧
      (withImages o t = true → ∀ img ∈ o.images, ∀ sec ∈ img.sections, ImgSecOK s6 img sec) :=
  export_sections_read h g.names g.inj g.img

/-- (2) SYMBOL TABLE and (3) RELA TABLES.  For every written file whose names are storable: the final section header list
    (which `ShTab` ties to what the reader finds at `e_shoff`) contains a SYMTAB header — `sh_entsize` = entry size,
    `sh_size = entsize·(#symbols+1)`, `sh_info = #locals+1`, name ".symtab" — whose file range holds the null entry followed
    by the packed entries of locals-then-globals (the permutation of `symbols_permutation`), each entry being
    `symHdr name-offset binding type shndx value size` with the name offset resolving to the symbol's name, and
    `(shndx, value)` = (0,0) for undefined, (SHN_ABS, value) for absolute, and for a symbol in section `sn`: value + address
    of that section and the number of a section header whose NAME resolves to `sn` (`SymTabOK`/`SymEntryOK`/`PlaceOK`);
    and, for relocatable files, for every relocation a RELA header for its section — name ".rela"+section, `sh_info` = number
    of a header named like the section, `sh_size = entsize·#entries` — whose file range holds, in order, the packed entries
    `relaHdr offset sym type addend` with the arch's type and `sym` = position in the written symbol table of a symbol with
    the relocation's symbol id (`RelaTabOK`/`RelaEntryOK`).  Each packed entry is parsed back by the reader's own
    `mkSymbol` / `mkRela` (`symbol_entry_read_back`, `rela_entry_read_back_partial`), tables by `table_roundtrip`, and the
    reader's `sh_info` check accepts the order (`reader_accepts_symbol_order`). -/
theorem symbol_and_rela_tables_partial (o : Obj) (t : EType) (file : List Nat)
    (h : write (gabiLayouts o.arch.cls o.arch.en) o t = .ok file) (hn : NamesOK o) :
    ∃ (s6 : St) (hd : Rec) (phs : List Hdr) (pre : List Nat), ShTab o t file s6 hd phs pre ∧
      SymTabOK (gabiLayouts o.arch.cls o.arch.en) o s6 ∧
      (t = .rel → ∀ r ∈ o.relocs, RelaTabOK (gabiLayouts o.arch.cls o.arch.en) o s6 r.sect) :=
  export_symtab_rela h hn

/-- COMPOSITION: everything above about ONE written file with one final writer state.  Exact remaining guard = `Guard o`
    (names NUL-free; section names identify sections; image sections are object sections) — each violated by a witness
    below.  What still separates this from `read_write_full`: the last step from the reader's primitives (`readTable`,
    `slice`, `strAt`, `mkSymbol`, `mkRela`, `checkInfo`, all covered) to the reader's drivers `readSections` /
    `readSymTabs` / `readRelaTabs` looping over the whole table (their success also needs `sh_addr % sh_addralign = 0`,
    a power-of-two alignment and `r_type` fitting the class, which the writer does not enforce). -/
theorem read_write_partial (o : Obj) (t : EType) (file : List Nat)
    (h : write (gabiLayouts o.arch.cls o.arch.en) o t = .ok file) (g : Guard o) :
    ∃ (s6 : St) (hd : Rec) (phs : List Hdr) (pre : List Nat), ShTab o t file s6 hd phs pre ∧
      (1 ≤ hd.get .e_shstrndx ∧ ∃ hs, phs[hd.get .e_shstrndx - 1]? = some hs ∧
        Rec.get (recOf (shdr o.arch.cls) hs) .sh_type = 3 ∧
        slice file (Rec.get (recOf (shdr o.arch.cls) hs) .sh_offset) (Rec.get (recOf (shdr o.arch.cls) hs) .sh_size)
          = some s6.strtab) ∧
      (∀ sec ∈ o.sections, ∃ (i : Nat) (h' : Hdr), phs[i]? = some h' ∧ SecRecOK file s6.strtab sec (recOf (shdr o.arch.cls) h')) ∧
      (withImages o t = true → ∀ img ∈ o.images, ∀ sec ∈ img.sections, ImgSecOK s6 img sec) ∧
      SymTabOK (gabiLayouts o.arch.cls o.arch.en) o s6 ∧
      (t = .rel → ∀ r ∈ o.relocs, RelaTabOK (gabiLayouts o.arch.cls o.arch.en) o s6 r.sect) :=
  export_all_tables h g

/-! #### witnesses: each guard is needed -/

/-- a name with a NUL byte is not read back from a string table (`NamesOK`) -/
example : strAt ([0] ++ [97, 0, 98] ++ [0]) 1 = some [97] := by decide

/-- two sections with the same name (`Guard.inj`): the second one is never written -/
example :
    (match outcome (write (gabiLayouts .c64 .le) dupNameObj .rel) with
     | .readBack s => (s.sections.filter (fun x => x.type == 1)).map (·.data)
     | _ => []) = [[1, 2]] := by
  decide +kernel

/-- an image holding a section that is not the object's section of that name (`Guard.img`): the object's data is not
    in the file -/
example :
    (match outcome (write (gabiLayouts .c32 .le) strangerImgObj .exec) with
     | .readBack s => (s.sections.filter (fun x => x.type == 1)).map (·.data)
     | _ => []) = [[9, 9, 9, 9]] := by
  decide +kernel

/-! ### the full statement (NOT proved as a whole — see the header of this file) -/

/-- what an ELF reader must see of object `o` written as type `t` -/
def ViewMatches (o : Obj) (t : EType) (v : File) : Prop :=
  v.cls = o.arch.cls ∧ v.en = o.arch.en ∧ v.etype = t.val ∧ v.machine = o.arch.machine ∧
  entryValue o t = .ok (v.entry : Int) ∧
  -- sections: contents and addresses
  (∀ s ∈ o.sections, ∃ x ∈ v.sections, x.name = s.name ∧ x.addr = s.address ∧ x.data = s.data) ∧
  -- symbols: one table, locals first, every object symbol with its value / binding / type
  (∃ tab, v.symtabs = [tab] ∧ tab.firstNonLocal = (o.symbols.filter (fun s => !s.isGlobal)).length + 1 ∧
    tab.syms.length = o.symbols.length + 1 ∧
    ∀ s ∈ o.symbols, ∃ y ∈ tab.syms, y.name = s.name ∧ y.bind = (if s.isGlobal then 1 else 0) ∧ y.type = s.typ.st ∧
      (s.value = none → y.shndx = 0 ∧ y.value = 0) ∧
      (∀ val, s.value = some val → s.sect = none → y.shndx = SHN_ABS ∧ y.value = val)) ∧
  -- relocations (relocatable files): one RELA table per section with relocations, entries in order
  (t = .rel → ∀ r ∈ o.relocs, ∃ rt ∈ v.relatabs, ∃ en ∈ rt.entries, en.offset = r.offset ∧ en.addend = r.addend ∧
      RType.ok en.type = r.rtype) ∧
  -- images (executables)
  (t = .exec → All2 SegFaithful o.images v.segments)

/-- FULL statement of C17 for the model; proved only in the layers above (`header_read_back_partial`,
    `segments_hold_images_partial` and the record / string-table / symbol-order theorems). Missing: the
    composition through the section header table (`readSections`, `readSymTabs`, `readRelaTabs` succeed on the
    written file and return the object's tables).  Evaluated on every real file by harness/c17.py. -/
def read_write_full : Prop :=
  ∀ (o : Obj) (t : EType) (file : List Nat),
    (∀ s ∈ o.sections, NoNul s.name ∧ (1 < s.alignment → isPow2 s.alignment = true ∧ s.address % s.alignment = 0)) →
    (∀ s ∈ o.symbols, NoNul s.name) →
    write (gabiLayouts o.arch.cls o.arch.en) o t = .ok file →
    ∃ v, Spec.Elf.read file = .ok v ∧ ViewMatches o t v

/-! ### concrete instances: non-vacuity and negation witnesses (tests, labelled as such) -/

/-- a relocatable x86-64 file with two sections, four symbols (local, global in the 2nd section, absolute,
    undefined) and two RELA tables is written, accepted by the gABI reader, and read back -/
example :
    (match outcome (write (gabiLayouts .c64 .le) (tinyRel .x86_64) .rel) with
     | .readBack s => some (s.sections.take 3, s.sections.map (·.name))
     | _ => none) =
    some ([⟨[], 0, 0, []⟩, ⟨codeN, 1, 0, [1, 2, 3, 4, 5]⟩, ⟨dataName, 1, 0, [9, 8]⟩],
          [[], codeN, dataName, symtabName, relaPrefix ++ codeN, relaPrefix ++ dataName, strtabName]) := by
  decide +kernel

example :
    (match outcome (write (gabiLayouts .c64 .le) (tinyRel .x86_64) .rel) with
     | .readBack s => some (s.cls, s.en, s.machine, s.symbols)
     | _ => none) =
    some (.c64, .le, 62,
      [⟨2, [⟨[], 0, 0, 0, 0⟩, ⟨[108], 3, 0, 2, 1⟩, ⟨[103], 1, 1, 1, 2⟩, ⟨[97], 4660, 1, 1, 0xfff1⟩, ⟨[117], 0, 1, 2, 0⟩]⟩]) := by
  decide +kernel

example :
    (match outcome (write (gabiLayouts .c64 .le) (tinyRel .x86_64) .rel) with
     | .readBack s => s.relas
     | _ => []) = [⟨1, [⟨1, 2, 2, -4⟩]⟩, ⟨2, [⟨0, 1, 1, 7⟩]⟩] := by
  decide +kernel

/-- the same symbols for the big-endian machine: accepted by the gABI reader (ELFCLASS32, ELFDATA2MSB) -/
example :
    (match outcome (write (gabiLayouts .c32 .be) { tinyRel .microblaze with relocs := [] } .rel) with
     | .readBack s => some (s.cls, s.en, s.machine, s.symbols)
     | _ => none) =
    some (.c32, .be, 189, [⟨2, [⟨[], 0, 0, 0, 0⟩, ⟨[108], 3, 0, 2, 1⟩, ⟨[103], 1, 1, 1, 2⟩, ⟨[97], 4660, 1, 1, 0xfff1⟩,
                                ⟨[117], 0, 1, 2, 0⟩]⟩]) := by
  decide +kernel

/-- NEGATION WITNESS (fixed by ec1546e): with the legacy field formats (no byte-order prefix = native order)
    the big-endian file is rejected by the gABI reader -/
example :
    outcome (write (legacyLayouts .c32) { tinyRel .microblaze with relocs := [] } .rel) = .rejected .badVersion := by
  decide +kernel

/-- the legacy tables are not the gABI layouts for big-endian files -/
example : legacyLayouts .c32 ≠ gabiLayouts .c32 .be := by decide

/-- NEGATION WITNESS (fixed by e2de1f3): the legacy writer raised KeyError on an absolute symbol -/
example : outcome (exportObject { absKeyError := true } (gabiLayouts .c64 .le) (tinyRel .x86_64) .rel) = .noFile .KeyError := by
  decide +kernel

/-- NEGATION WITNESS (fixed by ebcabf3): an image at the non page-aligned address 0x10004 — the legacy writer's
    file is rejected by the gABI reader (`p_vaddr` not congruent to `p_offset`) … -/
example :
    outcome (exportObject { noVaddrPadding := true } (gabiLayouts .c32 .le) tinyExec .exec) =
      .rejected .vaddrOffsetNotCongruent := by
  decide +kernel

/-- … the current one is read back: entry = value of the entry symbol, the segment holds the image bytes -/
example :
    (match outcome (write (gabiLayouts .c32 .le) tinyExec .exec) with
     | .readBack s => some (s.entry, s.segments)
     | _ => none) = some (0x10006, [⟨0x10004, 0x1004, [1, 2, 3, 4]⟩]) := by
  decide +kernel

/-- NEGATION WITNESS (open finding): relocations whose type the arch cannot map — no file -/
example : outcome (write (gabiLayouts .c32 .le) { tinyRel .arm with relocs := [⟨.notImplemented, 0, codeN, 0, 0⟩] } .rel)
    = .noFile .NotImplementedError := by
  decide +kernel

end Props.C17
