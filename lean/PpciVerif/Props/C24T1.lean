import PpciVerif.Props.C24
import PpciVerif.Proofs.T1_ir2py
/-!
# C24 — T1 translation tie for the emitted run-time helpers

`Gen.Py_ir2py_helpers.*` is written by `translate/py2lean.py` on every run from the TEXT that
`IrToPythonCompiler.generate_builtins` of the checked tree emits for `correct / idiv / irem / ishl /
ishr` (obtained by running the generator into a `StringIO`).  `gen_*_eq_model`: the regenerated
function IS the hand model `Model.IrPy.*` for every argument (bits : `Nat`, as in the model; the
helpers have no loops, so every `fuel` works).  Then the three helper theorems of C24 are restated
directly about the regenerated functions.
-/
namespace Props.C24T1
open Model.IrPy Spec.IRArith Proofs.T1.IrPy

theorem gen_correct_eq_model (fuel : Nat) (value : Int) (bits : Nat) (signed : Bool) :
    Gen.Py_ir2py_helpers.correct fuel value (bits : Int) (Model.PyRt.ofBool signed) = .ok (Model.IrPy.correct value bits signed) :=
  Proofs.T1.IrPy.gen_correct_eq_model fuel value bits signed
theorem gen_idiv_eq_model (fuel : Nat) (x y : Int) :
    Gen.Py_ir2py_helpers.idiv fuel x y = liftI (Model.IrPy.idiv x y) := Proofs.T1.IrPy.gen_idiv_eq_model fuel x y
theorem gen_irem_eq_model (fuel : Nat) (x y : Int) :
    Gen.Py_ir2py_helpers.irem fuel x y = liftI (Model.IrPy.irem x y) := Proofs.T1.IrPy.gen_irem_eq_model fuel x y
theorem gen_ishl_eq_model (fuel : Nat) (x amount : Int) (bits : Nat) :
    Gen.Py_ir2py_helpers.ishl fuel x amount (bits : Int) = liftI (Model.IrPy.ishl x amount bits) :=
  Proofs.T1.IrPy.gen_ishl_eq_model fuel x amount bits
theorem gen_ishr_eq_model (fuel : Nat) (x amount : Int) (bits : Nat) :
    Gen.Py_ir2py_helpers.ishr fuel x amount (bits : Int) = liftI (Model.IrPy.ishr x amount bits) :=
  Proofs.T1.IrPy.gen_ishr_eq_model fuel x amount bits

/-- the emitted `correct(x, bits, signed)` is the specification's `wrap`, for all 8 integer types -/
theorem gen_correct_is_wrap (fuel : Nat) (t : Ty) (x : Int) :
    Gen.Py_ir2py_helpers.correct fuel x (t.bits : Int) (Model.PyRt.ofBool t.signed) = .ok (wrap t x) := by
  rw [gen_correct_eq_model, Props.C24.correct_is_wrap]

/-- the emitted `idiv` / `irem` truncate toward zero for every `y ≠ 0` and raise ZeroDivisionError for 0 -/
theorem gen_idiv_truncates (fuel : Nat) (x y : Int) (hy : y ≠ 0) :
    Gen.Py_ir2py_helpers.idiv fuel x y = .ok (Int.tdiv x y) := by
  rw [gen_idiv_eq_model, Props.C24.idiv_truncates x y hy]; rfl

theorem gen_irem_truncates (fuel : Nat) (x y : Int) (hy : y ≠ 0) :
    Gen.Py_ir2py_helpers.irem fuel x y = .ok (Int.tmod x y) := by
  rw [gen_irem_eq_model, Props.C24.irem_truncates x y hy]; rfl

theorem gen_div_by_zero_raises (fuel : Nat) (x : Int) :
    Gen.Py_ir2py_helpers.idiv fuel x 0 = .error .ZeroDivisionError ∧
    Gen.Py_ir2py_helpers.irem fuel x 0 = .error .ZeroDivisionError := by
  rw [gen_idiv_eq_model, gen_irem_eq_model]
  constructor <;> (by_cases hx : x < 0 <;> simp [Model.IrPy.idiv, Model.IrPy.irem, hx, liftI, errOf])

/-- the emitted shifts reduce the count modulo the width (`bits ≥ 1`) and then shift exactly -/
theorem gen_shifts (fuel : Nat) (x amount : Int) (bits : Nat) (hb : 1 ≤ bits) :
    Gen.Py_ir2py_helpers.ishl fuel x amount (bits : Int) = .ok (x * 2 ^ (amount % (bits : Int)).toNat) ∧
    Gen.Py_ir2py_helpers.ishr fuel x amount (bits : Int) = .ok (x / 2 ^ (amount % (bits : Int)).toNat) := by
  have hb' : bits ≠ 0 := by omega
  rw [gen_ishl_eq_model, gen_ishr_eq_model, model_ishl, model_ishr]
  simp [hb', liftI]

example : Gen.Py_ir2py_helpers.idiv 0 (-7) 2 = .ok (-3) ∧ Gen.Py_ir2py_helpers.irem 0 (-7) 2 = .ok (-1) := by decide +kernel
example : Gen.Py_ir2py_helpers.correct 0 128 8 1 = .ok (-128) ∧ Gen.Py_ir2py_helpers.ishr 0 (-8) 33 32 = .ok (-4) := by decide +kernel

end Props.C24T1
