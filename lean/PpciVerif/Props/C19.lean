import PpciVerif.Model.SRec
import PpciVerif.Spec.SRec
namespace Props.C19
theorem stub : True := trivial
end Props.C19
