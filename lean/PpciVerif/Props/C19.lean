import PpciVerif.Model.SRec
import PpciVerif.Spec.SRec
import PpciVerif.Proofs.SRec
/-!
# C19 — S-record output decodes to the object's code

Property theorems only.  Model: `Model.SRec` (hand model of `ppci/format/srecord.py`
after the repair commit, tied by correspondence; `Model.SRec.Legacy` = the code before
it).  Spec: `Spec.SRec` (strict reader written from the Motorola format).  The object
is its code section: `address` and the bytes `data`; no bound on the length.
-/
namespace Props.C19
deriving instance DecidableEq for Except
open Spec.SRec Proofs.SRec
open Model.SRec (writeSrecord toLine)

/-- b"HDR" -/
def HDR : List Nat := [72, 68, 82]

/-- The file decodes, with the independent reader, to exactly the code bytes at their
    addresses (each address once, ascending), header text "HDR", start address 0 —
    for code of ANY length at ANY address with end ≤ 2^32 (so beyond 64 KiB and 16 MiB too). -/
theorem reader_decodes_written_file (address : Nat) (data : List Nat) (hd : ∀ b ∈ data, b < 256)
    (hend : address + data.length ≤ 4294967296) :
    ∃ lines, writeSrecord address data = .ok lines ∧
      Spec.SRec.read lines = some ⟨some HDR, cellsOf address data, 0⟩ := by
  obtain ⟨typ, asz, e, _, _, _, _, h1, _, h3⟩ := write_spec address data hd hend
  exact ⟨_, h1, h3⟩

/-- Every emitted line satisfies the record grammar with a correct count and checksum
    (`parseRecord` checks exactly these). -/
theorem every_record_valid (address : Nat) (data : List Nat) (hd : ∀ b ∈ data, b < 256)
    (hend : address + data.length ≤ 4294967296) :
    ∃ lines recs, writeSrecord address data = .ok lines ∧ parseAll lines = some recs ∧
      lines.length = recs.length := by
  obtain ⟨typ, asz, e, _, _, _, _, h1, h2, _⟩ := write_spec address data hd hend
  refine ⟨_, _, h1, h2, ?_⟩
  have : ∀ (ls : List (List Char)) (rs : List Record), parseAll ls = some rs → ls.length = rs.length := by
    intro ls
    induction ls with
    | nil => intro rs h; simp only [parseAll, Option.some.injEq] at h; subst h; rfl
    | cons l ls ih =>
      intro rs h
      simp only [parseAll] at h
      cases hl : parseRecord l with
      | none => simp [hl] at h
      | some r =>
        cases hls : parseAll ls with
        | none => simp [hl, hls] at h
        | some rs' =>
          simp only [hl, hls, Option.some.injEq] at h
          subst h; simp [ih rs' hls]
  exact this _ _ h2

/-- The header text is carried by an S0 record (the first line) and by nothing else: all
    other records are data records of ONE type `typ` ∈ {S1,S2,S3} whose payloads concatenate
    to exactly the code, followed by the termination record S(10-typ); the address field of
    that type is wide enough for the highest address. -/
theorem header_only_in_S0 (address : Nat) (data : List Nat) (hd : ∀ b ∈ data, b < 256)
    (hend : address + data.length ≤ 4294967296) :
    ∃ lines typ drecs, writeSrecord address data = .ok lines ∧
      parseAll lines = some (⟨0, 0, HDR⟩ :: drecs ++ [⟨10 - typ, 0, []⟩]) ∧
      (typ = 1 ∨ typ = 2 ∨ typ = 3) ∧ address + data.length ≤ 256 ^ (typ + 1) ∧
      (∀ r ∈ drecs, r.typ = typ) ∧ (drecs.map (·.data)).flatten = data := by
  obtain ⟨typ, asz, e, h1, h2, h3, h4, h5, h6, _⟩ := write_spec address data hd hend
  subst h2 h3
  exact ⟨_, typ, dataRecs typ address (Model.SRec.chunks30 data), h5, h6, h1, h4, dataRecs_typ _ _ _,
    by rw [dataRecs_payload, (chunks30_spec data).1]⟩

theorem cellsOf_inj : ∀ (d d' : List Nat) (a a' : Nat), d ≠ [] →
    cellsOf a d = cellsOf a' d' → a = a' ∧ d = d'
  | [], _, _, _, h, _ => absurd rfl h
  | _ :: _, [], _, _, _, h => by simp [cellsOf] at h
  | b :: bs, b' :: bs', a, a', _, h => by
    simp only [cellsOf, List.cons.injEq, Prod.mk.injEq] at h
    obtain ⟨⟨ha, hb⟩, ht⟩ := h
    subst ha hb
    refine ⟨rfl, ?_⟩
    cases bs with
    | nil => cases bs' with
      | nil => rfl
      | cons _ _ => simp [cellsOf] at ht
    | cons c cs => rw [(cellsOf_inj (c :: cs) bs' _ _ (by simp) ht).2]

/-- The written file determines the code: no two different non-empty code sections
    (different address OR different bytes) are ever written as the same file — nothing is
    lost, truncated or aliased by the writer, for any length and any address below 2^32. -/
theorem file_determines_code (a a' : Nat) (d d' : List Nat) (hd : ∀ b ∈ d, b < 256)
    (hd' : ∀ b ∈ d', b < 256) (he : a + d.length ≤ 4294967296) (he' : a' + d'.length ≤ 4294967296)
    (hne : d ≠ []) (lines : List (List Char))
    (h : writeSrecord a d = .ok lines) (h' : writeSrecord a' d' = .ok lines) : a = a' ∧ d = d' := by
  obtain ⟨l1, w1, r1⟩ := reader_decodes_written_file a d hd he
  obtain ⟨l2, w2, r2⟩ := reader_decodes_written_file a' d' hd' he'
  rw [h] at w1; rw [h'] at w2
  cases w1; cases w2
  rw [r1] at r2
  simp only [Option.some.injEq, Image.mk.injEq] at r2
  exact cellsOf_inj d d' a a' hne r2.2.1

/-! ### non-vacuity and witnesses -/

example : writeSrecord 0xFFFE [1, 2, 3] = .ok
    ["S00600004844521B".toList, "S20700FFFE010203F5".toList, "S804000000FB".toList] := by decide +kernel

example : (writeSrecord 0xFFFE [1, 2, 3]).toOption.bind Spec.SRec.read
    = some ⟨some HDR, [(0xFFFE, 1), (0xFFFF, 2), (0x10000, 3)], 0⟩ := by decide +kernel

/-- defect 1 (before the repair): the header text is an S1 data record — the reader finds
    no header and three bytes 'H','D','R' of "code" at address 0 for an EMPTY code section -/
example : (Model.SRec.Legacy.writeSrecord 0 []).toOption.bind Spec.SRec.read
    = some ⟨none, [(0, 72), (1, 68), (2, 82)], 0⟩ := by decide +kernel

/-- defect 2 (before the repair): an S1 record for address 0x10000 carries address 0x0000 -/
example : (Model.SRec.Legacy.toLine 1 0x10000 [0xAA]).toOption.bind parseRecord
    = some ⟨1, 0, [0xAA]⟩ := by decide +kernel
/-- the repaired `to_line` refuses it; `write_srecord` switches to S2 -/
example : toLine 1 0x10000 [0xAA] = .error .ValueError := by decide +kernel

/-- defect 3 (before the repair): the section address is not used -/
example : (Model.SRec.Legacy.writeSrecord 0x8000 [7]).toOption.bind Spec.SRec.read
    = some ⟨none, [(0, 72), (1, 68), (2, 82), (0, 7)], 0⟩ := by decide +kernel

end Props.C19
