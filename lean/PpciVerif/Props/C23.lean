import PpciVerif.Model.Shape
import PpciVerif.Proofs.Shape
import PpciVerif.Model.DataSeg
import PpciVerif.Proofs.DataSeg
import PpciVerif.Model.FuncTable
import PpciVerif.Proofs.FuncTable
/-!
# C23 — IR → WebAssembly: control-flow structuring is behaviour preserving

Verified-validator shape.  `Model.Shape.check g w` is run on every control
skeleton `w` that the real `IrToWasmCompiler.do_shape` emits for the shape tree
that the real `relooper.find_structure` returns for a function with CFG `g`.
The theorems below say what an acceptance means, for **all** CFGs, skeletons,
branch oracles and fuels: the sequence of basic blocks the wasm function
executes is the path the IR function takes, including termination.

Not covered here (see notes/C23.md): the straight-line code inside a block
(expression / stack code), wasm operand-stack validation, execution in a
reference engine.  The validator is sound, not complete: it may reject a correct
skeleton (e.g. a loop whose body does not start with a block).
-/
namespace Props.C23
open Model.Shape Proofs.Shape

theorem check_chk {g : Cfg} {w : W} (h : check g w = true) :
    chk g w (.next g.entry) = some (.dead, []) := by
  unfold check at h
  split at h
  · next heq => exact heq
  · cases h

/-- **Soundness of the validator, safety half.**  If `check` accepts, then for
    every branch oracle and every fuel the wasm skeleton is observed exactly as a
    run of the CFG is: it never gets stuck, never falls off the end of the
    function, never branches out of it; when it has returned, the CFG run of the
    same length has returned with the same block trace; when it is still running,
    its block trace is the CFG's trace of that length. -/
theorem check_sound_prefix (g : Cfg) (w : W) (h : check g w = true) (o : Oracle) (fuel : Nat) :
    ∃ k, wasmTrace g o w fuel = some (cfgTrace g o k) := by
  have hc := check_chk h
  have G := chk_sound g o fuel w _ _ _ St.init hc Path.start
  unfold wasmTrace
  cases hr : exec g o fuel w St.init with
  | fall s => rw [hr] at G; exact G.elim
  | br n s => rw [hr] at G; obtain ⟨t, hm, _⟩ := G; cases hm
  | stuck s => rw [hr] at G; exact G.elim
  | ret s =>
    rw [hr] at G
    obtain ⟨b, hh, hs, p, ht⟩ := G
    exact ⟨hh.length + 1, by simp only [trace_of_ret p ht, hs]⟩
  | out s =>
    rw [hr] at G
    obtain ⟨t, p⟩ := G
    exact ⟨s.hist.length, by simp only [trace_of_path p]⟩

/-- **Soundness of the validator, liveness half.**  If `check` accepts, every
    finite run of the CFG is eventually reproduced: for every `k` some fuel makes
    the wasm skeleton exhibit the CFG's observation of some length `k' ≥ k`
    (which extends the one of length `k`, see `cfgTrace_prefix`, and equals it
    when the CFG run has returned, see `cfgTrace_done_stable`).  In particular the
    skeleton cannot spin without executing blocks, and it returns whenever the
    CFG run returns. -/
theorem check_sound_progress (g : Cfg) (w : W) (h : check g w = true) (o : Oracle) (k : Nat) :
    ∃ fuel k', k ≤ k' ∧ wasmTrace g o w fuel = some (cfgTrace g o k') := by
  have hc := check_chk h
  obtain ⟨f, hadv⟩ := chk_progress g o k w _ _ _ St.init hc Path.start
  have G := chk_sound g o f w _ _ _ St.init hc Path.start
  refine ⟨f, ?_⟩
  unfold wasmTrace
  cases hr : exec g o f w St.init with
  | fall s => rw [hr] at G; exact G.elim
  | br n s => rw [hr] at G; obtain ⟨t, hm, _⟩ := G; cases hm
  | stuck s => rw [hr] at G; exact G.elim
  | ret s =>
    rw [hr] at G
    obtain ⟨b, hh, hs, p, ht⟩ := G
    refine ⟨hh.length + 1 + k, by omega, ?_⟩
    have e := trace_of_ret p ht
    have := cfgRun_done_stable g o (hh.length + 1) k g.entry [] (by
      have : cfgRun g o (hh.length + 1) g.entry [] = ⟨b :: hh, true⟩ := e
      rw [this])
    simp only [cfgTrace] at e ⊢
    rw [this, e, hs]
  | out s =>
    rw [hr] at G hadv
    obtain ⟨t, p⟩ := G
    simp only [Adv, St.init, List.length_nil, Nat.zero_add] at hadv
    exact ⟨s.hist.length, hadv, by simp only [trace_of_path p]⟩

/-- CFG observations are monotone: a longer one extends a shorter one (the block
    lists are most-recent-first, so "extends" is the suffix relation). -/
theorem cfgTrace_prefix (g : Cfg) (o : Oracle) {k k' : Nat} (h : k ≤ k') :
    (cfgTrace g o k).blocks <:+ (cfgTrace g o k').blocks := by
  obtain ⟨d, rfl⟩ := Nat.exists_eq_add_of_le h
  exact cfgRun_mono g o k d g.entry []

/-- once the CFG run has returned, longer observations are identical -/
theorem cfgTrace_done_stable (g : Cfg) (o : Oracle) {k k' : Nat} (h : k ≤ k')
    (hd : (cfgTrace g o k).done = true) : cfgTrace g o k' = cfgTrace g o k := by
  obtain ⟨d, rfl⟩ := Nat.exists_eq_add_of_le h
  exact cfgRun_done_stable g o k d g.entry [] hd

/-- **Termination agreement.**  For an accepted skeleton, under every oracle, the
    wasm function returns with block trace `t` iff the IR function does. -/
theorem check_sound_termination (g : Cfg) (w : W) (h : check g w = true) (o : Oracle)
    (t : Trace) (ht : t.done = true) :
    (∃ fuel, wasmTrace g o w fuel = some t) ↔ (∃ k, cfgTrace g o k = t) := by
  constructor
  · rintro ⟨fuel, hf⟩
    obtain ⟨k, hk⟩ := check_sound_prefix g w h o fuel
    rw [hf] at hk
    exact ⟨k, (Option.some.inj hk).symm⟩
  · rintro ⟨k, hk⟩
    obtain ⟨fuel, k', hkk, hf⟩ := check_sound_progress g w h o k
    refine ⟨fuel, ?_⟩
    rw [hf, cfgTrace_done_stable g o hkk (by rw [hk]; exact ht), hk]

/-- The same for shape trees: `checkShape` compiles the shape exactly as
    `do_shape` does (`Model.Shape.compile`) and validates the result. -/
theorem checkShape_sound (g : Cfg) (s : Shape) (h : checkShape g s = true) (o : Oracle) :
    ∃ w, compile s none = .ok w ∧
      (∀ fuel, ∃ k, wasmTrace g o w fuel = some (cfgTrace g o k)) ∧
      (∀ k, ∃ fuel k', k ≤ k' ∧ wasmTrace g o w fuel = some (cfgTrace g o k')) := by
  unfold checkShape at h
  split at h
  · next w hw =>
    exact ⟨w, hw, fun fuel => check_sound_prefix g w h o fuel,
      fun k => check_sound_progress g w h o k⟩
  · cases h

/-! ### Non-vacuity and witnesses -/

/-- `b0: jmp b1;  b1: cjmp b2 b3;  b2: jmp b1;  b3: ret`  (a while loop) -/
def gWhile : Cfg := ⟨0, [.jmp 1, .cj 2 3, .jmp 1, .ret]⟩
/-- what ppci emits for it: `c0 block loop c1 if c2 br 1 else c3 end end end` -/
def wWhile : W :=
  .seq (.code 0) (.block (.loop (.seq (.code 1) (.ite (.seq (.code 2) (.br 1)) (.code 3)))))

example : check gWhile wWhile = true := by decide
example : checkShape gWhile
    (.seq [.basic 0, .loop (.ite 1 (.seq [.basic 2, .cont 0]) (.basic 3))]) = true := by decide
/-- three iterations then exit -/
example : wasmTrace gWhile (fun h => h.length < 8) wWhile 20
    = some ⟨[3, 1, 2, 1, 2, 1, 2, 1, 0], true⟩ := by decide
example : cfgTrace gWhile (fun h => h.length < 8) 9 = ⟨[3, 1, 2, 1, 2, 1, 2, 1, 0], true⟩ := by decide

/-- a `continue` where a `break`-like exit is needed is rejected … -/
example : check gWhile
    (.seq (.code 0) (.block (.loop (.seq (.code 1) (.ite (.seq (.code 2) (.br 1)) (.br 1)))))) = false := by
  decide
/-- … swapped arms are rejected … -/
example : check gWhile
    (.seq (.code 0) (.block (.loop (.seq (.code 1) (.ite (.code 3) (.seq (.code 2) (.br 1))))))) = false := by
  decide
/-- … and a loop that can spin without executing a block is rejected. -/
example : check ⟨0, [.jmp 0]⟩ (.block (.loop (.seq (.br 0) (.code 0)))) = false := by decide

/-- Known finding (relooper, nested loops): for
    `b0: jmp b1; b1: cjmp b2 b3; b2: ret; b3: cjmp b1 b3` ppci emits the skeleton
    below.  The validator rejects it, and it really is wrong: under the oracle
    "false until the 7th block, then true" the IR keeps running while the wasm
    function falls off the end of its body. -/
def gNested : Cfg := ⟨0, [.jmp 1, .cj 2 3, .ret, .cj 1 3]⟩
def wNested : W :=
  .seq (.code 0) (.block (.loop (.seq (.code 1) (.ite (.code 2)
    (.seq (.block (.loop (.seq (.code 3) (.ite (.br 2) (.br 1)))))
      (.seq (.code 1) (.ite (.code 2) .skip)))))))

example : check gNested wNested = false := by decide
example : wasmTrace gNested (fun h => h.length == 8) wNested 30 = none := by decide
example : cfgTrace gNested (fun h => h.length == 8) 12
    = ⟨[3, 3, 3, 1, 3, 3, 3, 3, 3, 3, 1, 0], false⟩ := by decide

/-! ## Initial-memory data segments (second sliver) -/
section DataSeg
open Model.DataSeg Proofs.DataSeg

/-- distinct globals occupy disjoint address ranges, in declaration order -/
theorem globals_disjoint (base : Nat) (vs : List Var) (i j : Nat) (v : Var) (ai aj : Nat)
    (hij : i < j) (hv : vs[i]? = some v) (hi : (layout base vs)[i]? = some ai)
    (hj : (layout base vs)[j]? = some aj) : ai + v.amount ≤ aj :=
  layout_disjoint vs base i j v ai aj hij hv hi hj

/-- every global lies above the virtual stack region `[0, base)` … -/
theorem globals_above_stack (base : Nat) (vs : List Var) (i addr : Nat)
    (h : (layout base vs)[i]? = some addr) : base ≤ addr := layout_ge' vs base i addr h

/-- … and the data segments do not write into it -/
theorem stack_region_untouched (base : Nat) (vs : List Var) (x : Nat) (h : x < base) :
    image base vs x = 0 := by
  unfold image; rw [imageFrom_below _ _ _ _ h]

/-- **The initial memory is the IR's initial state of the globals**: after the
    data segments have been applied (in emission order, later segments may in
    principle overwrite earlier ones), byte `k` of global `i`, read at the address
    the translated loads and stores use for it, is byte `k` of its initial value,
    and zero beyond the initial value — provided every initial value fits its
    variable (`WF`). -/
theorem initial_memory (base : Nat) (vs : List Var) (wf : WF vs) (i : Nat) (v : Var) (addr k : Nat)
    (hv : vs[i]? = some v) (ha : (layout base vs)[i]? = some addr) (hk : k < v.amount) :
    image base vs (addr + k) = v.data.getD k 0 := by
  unfold image
  rw [image_read vs _ base i v addr k wf hv ha hk]
  split
  · rfl
  · next h => simp only [List.getD_eq_getElem?_getD]; rw [List.getElem?_eq_none (by omega)]; rfl

/-- without `WF` the claim is false: an initial value longer than its variable
    spills into the next global (ppci does not check this) -/
example : image 1000 [⟨1, [7, 8]⟩, ⟨1, []⟩] 1001 = 8 := by decide
example : image 1000 [⟨4, [1, 2, 3, 4]⟩, ⟨8, []⟩, ⟨3, [170, 187, 204]⟩] 1013 = 187 := by decide
example : layout 1000 [⟨4, [1, 2, 3, 4]⟩, ⟨8, []⟩, ⟨3, [170, 187, 204]⟩] = [1000, 1004, 1012] := by decide

end DataSeg

/-! ## Function-table slots (third sliver) -/
section FuncTable
open Model.FuncTable Proofs.FuncTable

/-- **Every function-address use refers to the right table entry**: for the
    module-wide slot dictionary of `do_tree`, whatever functions take whatever
    addresses in whatever order, the element segment (`(compileModule uses).1`)
    holds, at the slot emitted for a use (`i32.const slot`), exactly the function
    whose address was taken there. -/
theorem functable_entry (uses : List (List Nat)) (f s : Nat)
    (h : (f, s) ∈ uses.flatten.zip (compileModule uses).2) :
    (compileModule uses).1[s]? = some f :=
  (run_spec uses.flatten []).2.2 (f, s) h

/-- one slot is emitted per use -/
theorem functable_slots_length (uses : List (List Nat)) :
    (compileModule uses).2.length = uses.flatten.length :=
  (run_spec uses.flatten []).2.1

/-- **No aliasing**: two uses that got the same slot took the address of the same
    function (slot assignment is injective on functions, across all functions of
    the module). -/
theorem functable_no_alias (uses : List (List Nat)) (f1 f2 s : Nat)
    (h1 : (f1, s) ∈ uses.flatten.zip (compileModule uses).2)
    (h2 : (f2, s) ∈ uses.flatten.zip (compileModule uses).2) : f1 = f2 := by
  have e1 := functable_entry uses f1 s h1
  have e2 := functable_entry uses f2 s h2
  rw [e1] at e2
  exact Option.some.inj e2

/-- the table never changes for a function that already has a slot (so the
    element segment has one entry per distinct pointed function) -/
theorem functable_stable (t : List Nat) (f : Nat) (hm : f ∈ t) : (take t f).1 = t :=
  take_stable t f hm

/-- non-vacuity: functions 3,1,2 pointed to from three functions -/
example : compileModule [[3, 1], [2, 3], [1, 2, 2]] = ([3, 1, 2], [0, 1, 2, 0, 1, 2, 2]) := by decide
/-- the full claim fails for a per-function dictionary: the second function's use
    of function 2 gets slot 0, where the element segment holds function 3 -/
example : runPerFunction [] [[3, 1], [2, 3]] = ([3, 1, 2, 3], [[0, 1], [0, 1]]) := by decide
example : ([3, 1, 2, 3] : List Nat)[0]? ≠ some 2 := by decide

end FuncTable

end Props.C23
