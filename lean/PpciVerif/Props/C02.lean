import PpciVerif.Proofs.Opt.Subst
import PpciVerif.Model.Opt
/-!
# C02 — the optimizer preserves IR behaviour

Behaviour = outcome of `Spec.IR.exec` (return value, final bytes of every global, trace of external calls).
`Preserves cfg m m'`: every defined run of `m` (no UB, no undefined read, nothing unsupported, enough fuel) is
reproduced by `m'` with the same outcome — for every oracle, function, argument vector and fuel.

Shape V (verified validators, `Model.OptCheck`): the theorems below hold for ALL modules, executions and
configurations; each real optimisation run is fed through the corresponding checker by harness/c02.py.
-/
namespace Props.C02
open Spec.IR Proofs.Opt Model.OptCheck

/-- **delete / insert validator** (what `DeleteUnusedInstructionsPass` does, and the insertion half of
    `ConstantFolder`): if `m'` is `m` with unused side-effect-free instructions removed and fresh constants
    inserted, every defined behaviour of every function is preserved. No well-formedness assumption. -/
theorem align_validator_sound (m m' : Module) (h : checkAlign m m' = true) (cfg : Config) :
    Preserves cfg m m' :=
  checkAlign_sound h cfg

/-- spelled out: return value, final global memory and external-call trace are the same -/
theorem align_validator_sound_exec (m m' : Module) (h : checkAlign m m' = true) (cfg : Config) (oracle : Oracle)
    (fname : String) (args : List Val) (fuel : Nat) (ret : Option Val) (globals : List (String × List (Option Nat)))
    (trace : List Event) (hrun : exec cfg m oracle fname args fuel = .ok ret globals trace) :
    ∃ fuel', exec cfg m' oracle fname args fuel' = .ok ret globals trace :=
  checkAlign_sound h cfg oracle fname args fuel ret globals trace hrun

/-- **SSA equation lemma (DESIGN S6)**, as an invariant of the reference semantics: if every function of the
    module passes `ssaCheck` (unique definitions; a dominance table closed along CFG edges and antisymmetric;
    every use dominated by its definition), then in every reachable state, in every activation on the stack,
    each pure instruction `x := op(a…)` whose definition strictly dominates the activation's program point
    satisfies `env x = ⟦op⟧(env a…)` — although `x` and the `aᵢ` are re-assigned on every loop iteration. -/
theorem ssa_equations_invariant (ctx : Ctx) (hm : ∀ f ∈ ctx.mod.funcs, ssaCheck f (computeDoms f) = true)
    (s t : State) (hs : StateOK ctx s) (hstep : step ctx s = .next t) : StateOK ctx t :=
  inv_step (fun f hf => ssaCheck_facts (hm f hf)) hs hstep

theorem ssa_equations_initial (ctx : Ctx) (hm : ∀ f ∈ ctx.mod.funcs, ssaCheck f (computeDoms f) = true)
    (fname : String) (args : List Val) (s : State) (h : initState ctx fname args = .ok s) : StateOK ctx s :=
  initState_ok (fun f hf => ssaCheck_facts (hm f hf)) h

/-- **typing invariant**: if every function passes `ssaCheck` and `tyCheck` (integer operands of integer
    binops / phis / returns have the declared integer type, integer-valued calls are direct calls of a
    subroutine with that result type), then in every reachable state every integer-typed local of every
    activation holds a value in the range of its type (`TyStateOK`).  Needed for `x + 0 = x`. -/
theorem typing_invariant (ctx : Ctx)
    (hm : ∀ f ∈ ctx.mod.funcs, ssaCheck f (computeDoms f) = true ∧ tyCheck ctx.mod f = true)
    (s t : State) (hs : TyStateOK ctx s) (hstep : step ctx s = .next t) : TyStateOK ctx t :=
  ty_step (fun f hf => ⟨ssaCheck_facts (hm f hf).1, (hm f hf).2⟩) hs hstep

/-- **load after store**: for `x := load (int t) p` preceded in its block by `store (int t) v p` with no
    instruction in between that may write memory (`lasSrc`), `env x = env v` holds in every activation whose
    program point the load strictly dominates, and between the store and the load the bytes at `p` are the
    encoding of `v` (`LasStateOK`, memory-window invariant) — preserved by every step. -/
theorem load_after_store_invariant (ctx : Ctx)
    (hm : ∀ f ∈ ctx.mod.funcs, ssaCheck f (computeDoms f) = true ∧ tyCheck ctx.mod f = true)
    (s t : State) (hty : TyStateOK ctx s) (hs : LasStateOK ctx s) (hstep : step ctx s = .next t) : LasStateOK ctx t :=
  las_step (fun f hf => ⟨ssaCheck_facts (hm f hf).1, (hm f hf).2⟩) hty hs hstep

/-- **substitution validator** (what `CommonSubexpressionEliminationPass`, `RemoveAddZeroPass` (integer types)
    and the `replace_by` half of `ConstantFolder` do): if `m'` is `m` with operands replaced by operands that `checkSubst` can justify from
    the equations of dominating pure instructions of `m` (same binop on justified-equal operands; equal
    constants; integer constant expressions with equal value; and, when the module passes `tyCheck`,
    `x := a + 0`, `x := 0 + a`, `x := a * 1` at integer types replaced by `a` — `RemoveAddZeroPass`), and
    conditional jumps on two known integer constants replaced by the jump they take (the folding decision
    of `CJumpPass`; its subsequent pruning of phi inputs / unreachable blocks is not covered), and — again
    under `tyCheck` — an integer load replaced by the operand of the latest store to the same address
    operand in the same block with no store / call / CopyBlob / inline asm in between (the forwarding half of
    `LoadAfterStorePass`), and the chain rewrite `(y ± c1) ± c2 → y ± c3` of `ConstantFolder` at integer types
    (`c3 ≡ c1 + c2` modulo the width),
    every defined behaviour is preserved. -/
theorem subst_validator_sound (m m' : Module) (h : checkSubst m m' = true) (cfg : Config) :
    Preserves cfg m m' :=
  checkSubst_sound h cfg

/-- validators compose (constant folding = insert the new constants, then substitute) -/
theorem validators_compose (m m1 m2 : Module) (h1 : checkAlign m m1 = true) (h2 : checkSubst m1 m2 = true)
    (cfg : Config) : Preserves cfg m m2 :=
  (checkAlign_sound h1 cfg).trans (checkSubst_sound h2 cfg)


/-! ### the model passes: full statements (NOT shown) and what is proved about them

`passPreserves p` is the full-strength statement of C02 for the model `p` of one pass: on every well-formed
module the pass either raises or produces a module with the same behaviour.  None of these is proved for all
modules; what is proved is the `_partial` version whose explicit decidable guard is "the verified checker
accepts this output" — the guard is evaluated on every real pass output by harness/c02.py. -/

def applyPass (p : Func → Model.Opt.R Func) (m : Module) : Option Module :=
  match Model.Opt.runPass p m with
  | .ok m' => some m'
  | .error _ => none

def passPreserves (p : Func → Model.Opt.R Func) : Prop :=
  ∀ (cfg : Config) (m m' : Module), wfModule m = true → applyPass p m = some m' → Preserves cfg m m'

/-- full statements, not shown (no theorem below proves them) -/
def deleteUnused_full : Prop := passPreserves fun f => .ok (Model.Opt.deleteUnused f)
def removeAddZero_full : Prop := passPreserves fun f => .ok (Model.Opt.removeAddZero f)
def cse_full : Prop := passPreserves fun f => .ok (Model.Opt.cse f)
def constFold_full : Prop := passPreserves Model.Opt.constFold
def cjump_full : Prop := passPreserves Model.Opt.cjumpPass
def loadAfterStore_full : Prop := passPreserves fun f => .ok (Model.Opt.loadAfterStore f)
def clean_full : Prop := passPreserves Model.Opt.clean

/-- DeleteUnused: proved under the guard `checkAlign m m'` (fails exactly when an unused `alloc`/`literal` is
    removed or a name is defined twice) -/
theorem deleteUnused_partial (cfg : Config) (m m' : Module)
    (hp : applyPass (fun f => .ok (Model.Opt.deleteUnused f)) m = some m') (guard : checkAlign m m' = true) :
    Preserves cfg m m' := by
  have _ := hp; exact checkAlign_sound guard cfg

/-- CSE and RemoveAddZero: proved under the guard `checkSubst m m'` (requires `ssaCheck` of every function;
    for RemoveAddZero also `tyCheck`, and fails for pointer/float `+0`, `*1`) -/
theorem cse_partial (cfg : Config) (m m' : Module)
    (hp : applyPass (fun f => .ok (Model.Opt.cse f)) m = some m') (guard : checkSubst m m' = true) :
    Preserves cfg m m' := by
  have _ := hp; exact checkSubst_sound guard cfg

theorem removeAddZero_partial (cfg : Config) (m m' : Module)
    (hp : applyPass (fun f => .ok (Model.Opt.removeAddZero f)) m = some m') (guard : checkSubst m m' = true) :
    Preserves cfg m m' := by
  have _ := hp; exact checkSubst_sound guard cfg

/-- LoadAfterStore, forwarding half: `m₁` = the pass output with the removed stores put back; proved under the
    guard `checkSubst m m₁`.  The store-removal half (`m₁ → m'`) is NOT proved: -/
theorem loadAfterStore_forwarding_partial (cfg : Config) (m m1 : Module) (guard : checkSubst m m1 = true) :
    Preserves cfg m m1 :=
  checkSubst_sound guard cfg

/-- not shown: removing a store that is overwritten by a later store to the same address operand and type with
    no reader in between preserves behaviour (needs a simulation in which the two memories differ inside the
    window) -/
def deadStoreRemoval_full : Prop :=
  ∀ (cfg : Config) (m m' : Module), wfModule m = true →
    applyPass (fun f => .ok (Model.Opt.loadAfterStore f)) m = some m' → Preserves cfg m m'

/-! ### `p + 0 → p` on pointers: why it is not justified, and the exact hypothesis under which it is

At type `ptr` the addition is carried out in the unsigned integer type of pointer width (`cfg.ptrTy`), so
`p + 0` evaluates to `wrap cfg.ptrTy p`.  Pointer *values* (addresses handed out by the layout and by `alloc`)
are natural numbers that Spec.IR never wraps; with a 16-bit pointer configuration the address of the first
global (`globBase = 0x100000`) does not fit, and `@g + 0` is a different value than `@g`.  With 64-bit pointers
the rewrite is exact for every address below 2^64 — which is no theorem of Spec.IR either, because `alloc` may
grow the stack without bound.  So the rule is proved under the explicit hypothesis "the pointer is in range",
and is not used by the validator. -/

theorem ptr_add_zero_of_inRange (cfg : Config) (x : Int) (h : Spec.IRArith.InRange cfg.ptrTy x) :
    evalBinop cfg .ptr .add (.int x) (.int 0) = .ok (.int x) := by
  simp only [evalBinop, intBinop_add_zero h]

theorem ptr_mul_one_of_inRange (cfg : Config) (x : Int) (h : Spec.IRArith.InRange cfg.ptrTy x) :
    evalBinop cfg .ptr .mul (.int x) (.int 1) = .ok (.int x) := by
  simp only [evalBinop, intBinop_mul_one h]

/-- with 16-bit pointers the address 0x100000 (the default `globBase`) plus 0 is 0 -/
example : evalBinop { ptrSize := 2 } .ptr .add (.int 0x100000) (.int 0) = .ok (.int 0) := by rfl

/-! ### statements that are NOT shown (CFG restructuring, mem2reg) -/

/-- CleanPass.glue_blocks / remove_empty_blocks and the pruning half of CJumpPass change the block structure;
    a validator `checkCfgEquiv` for them (block merge, empty-block bypass with phi re-keying, removal of
    unreachable blocks) with a soundness theorem is not built.  Full statements: -/
def cleanPass_full : Prop := clean_full
def cjumpPrune_full : Prop := cjump_full

/-- Mem2RegPromotor has no model; the statement that a promotion validator `check` (symbolic current value of
    the slot per block, phi inputs agree on every edge) would have to satisfy: -/
def promote_sound_full (check : Module → Module → Bool) : Prop :=
  ∀ (cfg : Config) (m m' : Module), check m m' = true → Preserves cfg m m'

/-- ConstantFolder: proved under the guard "`m₁` = `m` + the new constants passes `checkAlign`, and
    `checkSubst m₁ m'`" (fails for the chain rewrite `(y+c1)+c2` and pointer/float constants) -/
theorem constFold_partial (cfg : Config) (m m1 m' : Module)
    (hp : applyPass Model.Opt.constFold m = some m') (g1 : checkAlign m m1 = true) (g2 : checkSubst m1 m' = true) :
    Preserves cfg m m' := by
  have _ := hp; exact (checkAlign_sound g1 cfg).trans (checkSubst_sound g2 cfg)

/-! ### non-vacuity: the checkers accept concrete, non-trivial rewrites (kernel-evaluated) -/

private def i32 : Ty := .int .i32

private def mk (instrs : List Instr) : Module :=
  { name := "m", externs := [], vars := [],
    funcs := [{ name := "f", isGlobal := true, ret := some i32, entry := "e",
                params := [("x", i32), ("y", i32)], blocks := [{ name := "e", instrs := instrs }] }] }

/-- an unused constant and an unused addition are deleted -/
example : checkAlign
    (mk [.const "c" i32 (.int 5), .binop "u" i32 .add (.loc "x") (.loc "c"), .binop "r" i32 .mul (.loc "x") (.loc "y"), .ret (.loc "r")])
    (mk [.binop "r" i32 .mul (.loc "x") (.loc "y"), .ret (.loc "r")]) = true := by decide

/-- common subexpression: `b := x + y` is replaced by `a := x + y` in both operand slots of `w` -/
example : checkSubst
    (mk [.binop "a" i32 .add (.loc "x") (.loc "y"), .binop "b" i32 .add (.loc "x") (.loc "y"),
         .binop "w" i32 .mul (.loc "b") (.loc "b"), .ret (.loc "w")])
    (mk [.binop "a" i32 .add (.loc "x") (.loc "y"), .binop "b" i32 .add (.loc "x") (.loc "y"),
         .binop "w" i32 .mul (.loc "a") (.loc "a"), .ret (.loc "w")]) = true := by decide

/-- constant folding: `k := 7 % 3` (after insertion of the constant `n := 1`) is replaced by `n` -/
example : checkSubst
    (mk [.const "c7" i32 (.int 7), .const "c3" i32 (.int 3), .const "n" i32 (.int 1),
         .binop "k" i32 .rem (.loc "c7") (.loc "c3"), .binop "r" i32 .add (.loc "x") (.loc "k"), .ret (.loc "r")])
    (mk [.const "c7" i32 (.int 7), .const "c3" i32 (.int 3), .const "n" i32 (.int 1),
         .binop "k" i32 .rem (.loc "c7") (.loc "c3"), .binop "r" i32 .add (.loc "x") (.loc "n"), .ret (.loc "r")]) = true := by
  decide

/-- a wrongly folded constant (floor-mod: `-7 % 3 = 2`) is rejected -/
example : checkSubst
    (mk [.const "c7" i32 (.int (-7)), .const "c3" i32 (.int 3), .const "n" i32 (.int 2),
         .binop "k" i32 .rem (.loc "c7") (.loc "c3"), .binop "r" i32 .add (.loc "x") (.loc "k"), .ret (.loc "r")])
    (mk [.const "c7" i32 (.int (-7)), .const "c3" i32 (.int 3), .const "n" i32 (.int 2),
         .binop "k" i32 .rem (.loc "c7") (.loc "c3"), .binop "r" i32 .add (.loc "x") (.loc "n"), .ret (.loc "r")]) = false := by
  decide

/-- `x + 0` is replaced by `x` (needs the typing invariant) -/
example : checkSubst
    (mk [.const "z" i32 (.int 0), .binop "a" i32 .add (.loc "x") (.loc "z"), .binop "w" i32 .mul (.loc "a") (.loc "a"), .ret (.loc "w")])
    (mk [.const "z" i32 (.int 0), .binop "a" i32 .add (.loc "x") (.loc "z"), .binop "w" i32 .mul (.loc "x") (.loc "x"), .ret (.loc "w")])
    = true := by decide

/-- a replacement that is not justified (`y` for `x`) is rejected -/
example : checkSubst
    (mk [.binop "w" i32 .mul (.loc "x") (.loc "x"), .ret (.loc "w")])
    (mk [.binop "w" i32 .mul (.loc "x") (.loc "y"), .ret (.loc "w")]) = false := by decide


/-- the model of DeleteUnused on the first example produces exactly the module the checker accepts
    (hypotheses of `deleteUnused_partial` are satisfiable) -/
example :
    applyPass (fun f => .ok (Model.Opt.deleteUnused f))
      (mk [.const "c" i32 (.int 5), .binop "u" i32 .add (.loc "x") (.loc "c"), .binop "r" i32 .mul (.loc "x") (.loc "y"), .ret (.loc "r")])
      = some (mk [.const "c" i32 (.int 5), .binop "r" i32 .mul (.loc "x") (.loc "y"), .ret (.loc "r")]) ∧
    checkAlign
      (mk [.const "c" i32 (.int 5), .binop "u" i32 .add (.loc "x") (.loc "c"), .binop "r" i32 .mul (.loc "x") (.loc "y"), .ret (.loc "r")])
      (mk [.const "c" i32 (.int 5), .binop "r" i32 .mul (.loc "x") (.loc "y"), .ret (.loc "r")]) = true := by decide

/-- the models of CSE and RemoveAddZero produce the modules of the examples above -/
example :
    applyPass (fun f => .ok (Model.Opt.cse f))
      (mk [.binop "a" i32 .add (.loc "x") (.loc "y"), .binop "b" i32 .add (.loc "x") (.loc "y"),
           .binop "w" i32 .mul (.loc "b") (.loc "b"), .ret (.loc "w")])
      = some (mk [.binop "a" i32 .add (.loc "x") (.loc "y"), .binop "b" i32 .add (.loc "x") (.loc "y"),
           .binop "w" i32 .mul (.loc "a") (.loc "a"), .ret (.loc "w")]) := by decide

example :
    applyPass (fun f => .ok (Model.Opt.removeAddZero f))
      (mk [.const "z" i32 (.int 0), .binop "a" i32 .add (.loc "x") (.loc "z"), .binop "w" i32 .mul (.loc "a") (.loc "a"), .ret (.loc "w")])
      = some (mk [.const "z" i32 (.int 0), .binop "a" i32 .add (.loc "x") (.loc "z"), .binop "w" i32 .mul (.loc "x") (.loc "x"), .ret (.loc "w")])
    := by decide


/-- load after store: `r := load p` after `store a p` is replaced by `a` -/
example : checkSubst
    (mk [.alloc "s" 4 4, .addrof "p" (.loc "s"), .store i32 (.loc "x") (.loc "p") false, .load "r" i32 (.loc "p") false,
         .binop "w" i32 .add (.loc "r") (.loc "y"), .ret (.loc "w")])
    (mk [.alloc "s" 4 4, .addrof "p" (.loc "s"), .store i32 (.loc "x") (.loc "p") false, .load "r" i32 (.loc "p") false,
         .binop "w" i32 .add (.loc "x") (.loc "y"), .ret (.loc "w")]) = true := by decide

/-- … but not across a CopyBlob, nor from a store of another width -/
example : checkSubst
    (mk [.alloc "s" 4 4, .addrof "p" (.loc "s"), .store i32 (.loc "x") (.loc "p") false, .copyblob (.loc "p") (.loc "p") 4,
         .load "r" i32 (.loc "p") false, .binop "w" i32 .add (.loc "r") (.loc "y"), .ret (.loc "w")])
    (mk [.alloc "s" 4 4, .addrof "p" (.loc "s"), .store i32 (.loc "x") (.loc "p") false, .copyblob (.loc "p") (.loc "p") 4,
         .load "r" i32 (.loc "p") false, .binop "w" i32 .add (.loc "x") (.loc "y"), .ret (.loc "w")]) = false := by decide

end Props.C02
