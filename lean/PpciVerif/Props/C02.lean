import PpciVerif.Proofs.Opt.Subst
/-!
# C02 — the optimizer preserves IR behaviour

Behaviour = outcome of `Spec.IR.exec` (return value, final bytes of every global, trace of external calls).
`Preserves cfg m m'`: every defined run of `m` (no UB, no undefined read, nothing unsupported, enough fuel) is
reproduced by `m'` with the same outcome — for every oracle, function, argument vector and fuel.

Shape V (verified validators, `Model.OptCheck`): the theorems below hold for ALL modules, executions and
configurations; each real optimisation run is fed through the corresponding checker by harness/c02.py.
-/
namespace Props.C02
open Spec.IR Proofs.Opt Model.OptCheck

/-- **delete / insert validator** (what `DeleteUnusedInstructionsPass` does, and the insertion half of
    `ConstantFolder`): if `m'` is `m` with unused side-effect-free instructions removed and fresh constants
    inserted, every defined behaviour of every function is preserved. No well-formedness assumption. -/
theorem align_validator_sound (m m' : Module) (h : checkAlign m m' = true) (cfg : Config) :
    Preserves cfg m m' :=
  checkAlign_sound h cfg

/-- spelled out: return value, final global memory and external-call trace are the same -/
theorem align_validator_sound_exec (m m' : Module) (h : checkAlign m m' = true) (cfg : Config) (oracle : Oracle)
    (fname : String) (args : List Val) (fuel : Nat) (ret : Option Val) (globals : List (String × List (Option Nat)))
    (trace : List Event) (hrun : exec cfg m oracle fname args fuel = .ok ret globals trace) :
    ∃ fuel', exec cfg m' oracle fname args fuel' = .ok ret globals trace :=
  checkAlign_sound h cfg oracle fname args fuel ret globals trace hrun

/-- **SSA equation lemma (DESIGN S6)**, as an invariant of the reference semantics: if every function of the
    module passes `ssaCheck` (unique definitions; a dominance table closed along CFG edges and antisymmetric;
    every use dominated by its definition), then in every reachable state, in every activation on the stack,
    each pure instruction `x := op(a…)` whose definition strictly dominates the activation's program point
    satisfies `env x = ⟦op⟧(env a…)` — although `x` and the `aᵢ` are re-assigned on every loop iteration. -/
theorem ssa_equations_invariant (ctx : Ctx) (hm : ∀ f ∈ ctx.mod.funcs, ssaCheck f (computeDoms f) = true)
    (s t : State) (hs : StateOK ctx s) (hstep : step ctx s = .next t) : StateOK ctx t :=
  inv_step (fun f hf => ssaCheck_facts (hm f hf)) hs hstep

theorem ssa_equations_initial (ctx : Ctx) (hm : ∀ f ∈ ctx.mod.funcs, ssaCheck f (computeDoms f) = true)
    (fname : String) (args : List Val) (s : State) (h : initState ctx fname args = .ok s) : StateOK ctx s :=
  initState_ok (fun f hf => ssaCheck_facts (hm f hf)) h

/-- **substitution validator** (what `CommonSubexpressionEliminationPass` does, and the `replace_by` half of
    `ConstantFolder`): if `m'` is `m` with operands replaced by operands that `checkSubst` can justify from
    the equations of dominating pure instructions of `m` (same binop on justified-equal operands; equal
    constants; integer constant expressions with equal value), every defined behaviour is preserved. -/
theorem subst_validator_sound (m m' : Module) (h : checkSubst m m' = true) (cfg : Config) :
    Preserves cfg m m' :=
  checkSubst_sound h cfg

/-- validators compose (constant folding = insert the new constants, then substitute) -/
theorem validators_compose (m m1 m2 : Module) (h1 : checkAlign m m1 = true) (h2 : checkSubst m1 m2 = true)
    (cfg : Config) : Preserves cfg m m2 :=
  (checkAlign_sound h1 cfg).trans (checkSubst_sound h2 cfg)

end Props.C02
