import PpciVerif.Proofs.Opt.Align
/-!
# C02 — the optimizer preserves IR behaviour

Behaviour = outcome of `Spec.IR.exec` (return value, final bytes of every global, trace of external calls).
`Preserves cfg m m'`: every defined run of `m` (no UB, no undefined read, nothing unsupported, enough fuel) is
reproduced by `m'` with the same outcome — for every oracle, function, argument vector and fuel.

Shape V (verified validators, `Model.OptCheck`): the theorems below hold for ALL modules, executions and
configurations; each real optimisation run is fed through the corresponding checker by harness/c02.py.
-/
namespace Props.C02
open Spec.IR Proofs.Opt Model.OptCheck

/-- **delete / insert validator** (what `DeleteUnusedInstructionsPass` does, and the insertion half of
    `ConstantFolder`): if `m'` is `m` with unused side-effect-free instructions removed and fresh constants
    inserted, every defined behaviour of every function is preserved. No well-formedness assumption. -/
theorem align_validator_sound (m m' : Module) (h : checkAlign m m' = true) (cfg : Config) :
    Preserves cfg m m' :=
  checkAlign_sound h cfg

/-- spelled out: return value, final global memory and external-call trace are the same -/
theorem align_validator_sound_exec (m m' : Module) (h : checkAlign m m' = true) (cfg : Config) (oracle : Oracle)
    (fname : String) (args : List Val) (fuel : Nat) (ret : Option Val) (globals : List (String × List (Option Nat)))
    (trace : List Event) (hrun : exec cfg m oracle fname args fuel = .ok ret globals trace) :
    ∃ fuel', exec cfg m' oracle fname args fuel' = .ok ret globals trace :=
  checkAlign_sound h cfg oracle fname args fuel ret globals trace hrun

end Props.C02
