import PpciVerif.Spec.IRArith
import PpciVerif.Proofs.IRArith
open Spec.IRArith

theorem inRange64 (x : Int) : InRange .i64 x ↔ -9223372036854775808 ≤ x ∧ x ≤ 9223372036854775807 := by
  simp [InRange, Ty.minVal, Ty.maxVal, Ty.signed, Ty.bits]

theorem toBits_lt (x : Int) : toBits .i64 x < 2 ^ 64 := by
  simp only [toBits, Ty.bits]; omega

theorem toBits_testBit (x : Int) (h : InRange .i64 x) : (toBits .i64 x).testBit 63 = decide (x < 0) := by
  rw [inRange64] at h
  have : toBits .i64 x = (x % 2 ^ 64).toNat := by simp only [toBits, Ty.bits]
  rw [this, Nat.testBit_eq_decide_div_mod_eq]
  by_cases hx : x < 0
  · rw [decide_eq_true hx, decide_eq_true_iff]; omega
  · rw [decide_eq_false hx, decide_eq_false_iff_not]; omega

theorem ofBits_neg_iff (m : Nat) (h : m < 2 ^ 64) : ofBits .i64 m < 0 ↔ m.testBit 63 = true := by
  have : ofBits .i64 m = ((m:Int) + 2 ^ 63) % 2 ^ 64 - 2 ^ 63 := by simp [ofBits, wrap, Ty.signed, Ty.bits]
  rw [this, Nat.testBit_eq_decide_div_mod_eq, decide_eq_true_iff]
  omega

theorem ofBits_inRange (m : Nat) : InRange .i64 (ofBits .i64 m) := Proofs.IRArith.wrap_inRange _ _

/-- sign of `x ^ y` -/
theorem xor_neg_iff (x y : Int) (hx : InRange .i64 x) (hy : InRange .i64 y) :
    ofBits .i64 (toBits .i64 x ^^^ toBits .i64 y) < 0 ↔ ((x < 0) ↔ ¬ (y < 0)) := by
  rw [ofBits_neg_iff _ (Nat.xor_lt_two_pow (toBits_lt x) (toBits_lt y)), Nat.testBit_xor,
    toBits_testBit x hx, toBits_testBit y hy]
  by_cases h1 : x < 0 <;> by_cases h2 : y < 0 <;> simp [h1, h2]

theorem or_neg_iff (x y : Int) (hx : InRange .i64 x) (hy : InRange .i64 y) :
    ofBits .i64 (toBits .i64 x ||| toBits .i64 y) < 0 ↔ (x < 0 ∨ y < 0) := by
  rw [ofBits_neg_iff _ (Nat.or_lt_two_pow (toBits_lt x) (toBits_lt y)), Nat.testBit_or,
    toBits_testBit x hx, toBits_testBit y hy]
  by_cases h1 : x < 0 <;> by_cases h2 : y < 0 <;> simp [h1, h2]

/-- arithmetic shift by 63: the sign mask -/
theorem sar63 (x : Int) (h : InRange .i64 x) : x / 2 ^ (63:Int).toNat = if x < 0 then -1 else 0 := by
  rw [inRange64] at h
  have : (63:Int).toNat = 63 := rfl
  rw [this]
  split <;> omega

theorem and_mask (s z : Int) (hs : s = 0 ∨ s = -1) (hz : z = 0 ∨ z = -1) :
    ofBits .i64 (toBits .i64 s &&& toBits .i64 z) = if s = -1 ∧ z = -1 then -1 else 0 := by
  rcases hs with rfl | rfl <;> rcases hz with rfl | rfl <;> decide
