import PpciVerif.Model.Py2IrSem
import PpciVerif.Proofs.IRArith
open Spec.IRArith Model.Py2Ir

theorem fdiv_eq_tdiv_adj (a b : Int) (hb : b ≠ 0) :
    Int.fdiv a b = Int.tdiv a b +
      (if Int.tmod a b ≠ 0 ∧ ((Int.tmod a b < 0) ↔ ¬ (b < 0)) then -1 else 0) := by
  rw [Int.fdiv_eq_tdiv]
  have hd : b ∣ a ↔ Int.tmod a b = 0 := Int.dvd_iff_tmod_eq_zero
  by_cases h0 : Int.tmod a b = 0
  · simp [hd.2 h0, h0]
  · have hnd : ¬ b ∣ a := fun h => h0 (hd.1 h)
    simp only [hnd, if_false, h0, ne_eq, not_false_eq_true, true_and]
    by_cases ha : 0 ≤ a
    · have hr : 0 ≤ Int.tmod a b := Int.tmod_nonneg b ha
      have hr' : ¬ Int.tmod a b < 0 := by omega
      by_cases hbn : 0 ≤ b
      · have : ¬ b < 0 := by omega
        simp [ha, hbn, hr', this]
      · have : b < 0 := by omega
        simp [ha, hbn, hr', this]; omega
    · have hr : Int.tmod a b ≤ 0 := by
        have h1 := Int.neg_tmod (-a) b
        rw [Int.neg_neg] at h1
        have h2 := Int.tmod_nonneg (a := -a) b (by omega)
        omega
      have hr' : Int.tmod a b < 0 := by omega
      by_cases hbn : 0 ≤ b
      · have hb' : ¬ b < 0 := by omega
        have : b.sign = 1 := Int.sign_eq_one_of_pos (by omega)
        simp [ha, hbn, hr', hb', this]; omega
      · have hb' : b < 0 := by omega
        have : b.sign = -1 := Int.sign_eq_neg_one_of_neg hb'
        simp [ha, hbn, hr', hb', this]
