import PpciVerif.Spec.IRArith
open Spec.IRArith
theorem and_mask1 : ofBits .i64 (toBits .i64 (-1) &&& toBits .i64 (-1)) = -1 := by decide +kernel
theorem and_mask2 : ofBits .i64 (toBits .i64 (-1) &&& toBits .i64 0) = 0 := by decide +kernel
theorem and_mask3 : ofBits .i64 (toBits .i64 0 &&& toBits .i64 (-1)) = 0 := by decide +kernel
theorem and_mask4 : ofBits .i64 (toBits .i64 0 &&& toBits .i64 0) = 0 := by decide +kernel
