import PpciVerif.Proofs.Py2IrCFG
open Model.Py2Ir Proofs.Py2IrCFG

def forPre (st : St) (lo : Option PExpr) : Except Err (Val × St) :=
  match lo with
  | none => .ok (.tmp st.nvals, { (st.emit (.const st.nvals .i64 0)) with nvals := st.nvals + 1 })
  | some e =>
    match st.expr e with
    | .error er => .error er
    | .ok (v, _, s) => .ok (v, s)

def forEnter (st3 : St) (iInit n2 addr : Val) : St :=
  { nblocks := st3.nblocks + 4, cur := st3.nblocks + 1, nvals := st3.nvals + 1, locals := st3.locals,
    loops := (st3.nblocks + 2, st3.nblocks + 3) :: st3.loops,
    log := st3.log ++ [Event.emit st3.cur (.jump st3.nblocks), .emit st3.nblocks (.phi st3.nvals .i64),
      .incoming st3.nvals st3.cur iInit,
      .emit st3.nblocks (.cjump (.tmp st3.nvals) "<" n2 (st3.nblocks + 1) (st3.nblocks + 3)),
      .emit (st3.nblocks + 1) (.store (.tmp st3.nvals) addr)] }

def forLeave (st3 st14 : St) : St :=
  { st14 with cur := st3.nblocks + 3, nvals := st14.nvals + 2, loops := st14.loops.tail,
    log := st14.log ++ [Event.emit st14.cur (.jump (st3.nblocks + 2)), .emit (st3.nblocks + 2) (.const st14.nvals .i64 1),
      .emit (st3.nblocks + 2) (.binop (st14.nvals + 1) .i64 "+" (.tmp st3.nvals) (.tmp st14.nvals)),
      .incoming st3.nvals (st3.nblocks + 2) (.tmp (st14.nvals + 1)),
      .emit (st3.nblocks + 2) (.jump st3.nblocks)] }

theorem genStmt_fors (isProc : Bool) (x : String) (lo : Option PExpr) (hi : PExpr) (body : PStmt) (st : St) :
    genStmt isProc (.fors x lo hi body) st =
      match forPre st lo with
      | .error er => .error er
      | .ok (iInit, st1) =>
        match st1.expr hi with
        | .error er => .error er
        | .ok (n2, _, st2) =>
          match getVariable st2 x (some .i64) with
          | .error er => .error er
          | .ok (lv, st3) =>
            match genStmt isProc body (forEnter st3 iInit n2 lv.addr) with
            | .error er => .error er
            | .ok st14 => .ok (forLeave st3 st14) := by
  rw [genStmt]
  cases h1 : forPre st lo with
  | error er =>
    simp only [forPre] at h1
    cases lo with
    | none => simp at h1
    | some e =>
      simp only at h1 ⊢
      cases he : st.expr e with
      | error er2 => simp [he] at h1 ⊢; exact h1
      | ok r => simp [he] at h1
  | ok r =>
    sorry
