#!/bin/sh
# MANIFEST.setup_cmd: regenerate translated tables from /repo, then build every Lean module. Offline.
set -e
HERE="$(cd "$(dirname "$0")" && pwd)"
cd "$HERE"
/venv/bin/python harness/regen_all.py
cd lean && lake build
