#!/bin/sh
# MANIFEST.setup_cmd: regenerate translated tables from /repo, then build every Lean module. Offline.
# A module that fails to build here is reported again (as a broken obligation) by the check that needs it,
# so setup itself does not fail on it.
HERE="$(cd "$(dirname "$0")" && pwd)"
cd "$HERE" || exit 1
/venv/bin/python harness/regen_all.py
cd lean && flock .build.lock lake build || echo "setup: WARNING some Lean modules failed to build (see above)"
exit 0
