"""T1 `py2lean` -- translator for a CLOSED, SMALL fragment of Python (DESIGN 2.3).

Input : the source text of module-level functions (or staticmethods) whose whole
        semantics is integer arithmetic on ints, lists of ints / bytes, or a byte
        iterator.
Output: one Lean file `lean/PpciVerif/Gen/Py_<module>.lean` with one definition per
        Python function (plus one recursive, fuel-indexed definition per loop), over
        the runtime `Model.PyRt` / `Model.PyInt`.

The assumed meaning of every accepted construct is written down, construct by
construct, in `translate/SEMANTICS.md`.  Anything else makes the translator stop
with `untranslatable: <construct> at <file>:<line>`; nothing is approximated.

The output is deterministic and contains nothing that depends on comments, line
numbers or formatting of the source, so a cosmetic edit leaves the Gen file (and
the Lean build) untouched.

    translate_source(text, filename, functions, lean_name)  -> Lean text
    regen(repo, relpath, functions, lean_name [, records])  -> (path, changed)
"""
import ast
from pathlib import Path

VERIF = Path(__file__).resolve().parent.parent
GEN = VERIF / "lean" / "PpciVerif" / "Gen"


class Untranslatable(Exception):
    pass


# exception classes that have a constructor in Model.PyRt.PyErr
PY_ERRORS = ("ValueError", "TypeError", "ZeroDivisionError", "AssertionError", "StopIteration", "IndexError",
             "OverflowError", "NotImplementedError", "RuntimeError", "KeyError")

LEAN_RESERVED = {
    "end", "at", "from", "have", "show", "then", "fun", "do", "in", "let", "if", "else", "match", "with", "by", "open",
    "namespace", "section", "where", "deriving", "instance", "structure", "class", "def", "theorem", "example", "import",
    "mutual", "universe", "variable", "Type", "Prop", "Sort", "return", "for", "try", "catch", "finally", "unless",
    "break", "continue", "mut", "nomatch", "nofun", "using", "calc", "fuel", "abbrev", "inductive", "macro", "syntax",
    "notation", "infix", "prefix", "postfix", "set_option", "attribute", "private", "protected", "partial", "unsafe",
    "noncomputable", "axiom", "lemma", "obtain", "suffices", "extends", "forall", "exists", "true", "false", "PyRt",
    "PyInt", "Int", "Nat", "Bool", "List", "Except", "it", "it_stop",
}

LEAN_TYPE = {"int": "Int", "bool": "Bool", "list": "List Int", "iter": "List Int"}
DUMMY = {"int": "(0 : Int)", "bool": "false", "list": "([] : List Int)", "iter": "([] : List Int)"}


def lname(py):
    """Lean identifier for a Python identifier"""
    if py in LEAN_RESERVED or py.startswith("_t") or py.startswith("_s") or py.startswith("_r"):
        return py + "_py"
    return py


def ind(lines, n=2):
    return [" " * n + l for l in lines]


class Record:
    """A parameter declared (by the caller of the translator) to be an object of which only
    int- or bool-valued attributes are read: `ty.bits` is translated as the extra Int parameter `ty_bits`
    (a truth value is tested `!= 0`); the attribute `is:Cls` stands for `isinstance(ty, Cls)`."""

    def __init__(self, attrs):
        self.attrs = list(attrs)


class FnSig:
    def __init__(self, name, params, ptypes, ret, has_iter, procedure=False):
        self.name, self.params, self.ptypes, self.ret, self.has_iter = name, params, ptypes, ret, has_iter
        self.procedure = procedure      # returns None; its effect is the final state of its BitView parameter


class External:
    """A function translated elsewhere (another Gen module) that the translated code may call by its imported name:
    `lean` = qualified Lean name, `from_module` = last component of the module it must be imported from
    (checked against the `from … import …` statements of the source), `ptypes`/`ret` = its signature."""

    def __init__(self, lean, from_module, ptypes, ret, lean_import):
        self.lean, self.from_module, self.ptypes, self.ret, self.lean_import = lean, from_module, list(ptypes), ret, lean_import


class Module:
    def __init__(self, text, filename, functions, records=None, externals=None):
        self.filename = filename
        self.records = records or {}
        self.externals = externals or {}
        self.used_externals = []
        try:
            self.tree = ast.parse(text, filename)
        except SyntaxError as e:
            raise Untranslatable(f"untranslatable: syntax error at {filename}:{e.lineno}")
        self.defs = {}
        for node in self.tree.body:
            if isinstance(node, ast.FunctionDef):
                self.defs[node.name] = node
            elif isinstance(node, ast.ClassDef):
                # staticmethods, and ordinary methods (first parameter `self`, see Fn); class decorators and base
                # classes do not change the text of a method body
                for sub in node.body:
                    if isinstance(sub, ast.FunctionDef):
                        self.defs[f"{node.name}.{sub.name}"] = sub
        # names imported with `from <module> import <name>`: name -> last component of <module>
        self.imported = {}
        for node in self.tree.body:
            if isinstance(node, ast.ImportFrom) and node.module:
                for al in node.names:
                    self.imported[al.asname or al.name] = (node.module.split(".")[-1], al.name)
        self.wanted = list(functions)
        for f in self.wanted:
            if f not in self.defs:
                raise Untranslatable(f"untranslatable: function {f} not found at {filename}:1")
        self.sigs = {}
        self.out = []

    def fail(self, node, what):
        raise Untranslatable(f"untranslatable: {what} at {self.filename}:{getattr(node, 'lineno', 0)}")

    # -- order: callees first ------------------------------------------------------------
    def order(self):
        deps = {}
        for f in self.wanted:
            calls = []
            for n in ast.walk(self.defs[f]):
                if isinstance(n, ast.Call) and isinstance(n.func, ast.Name) and n.func.id in self.wanted:
                    if n.func.id not in calls:
                        calls.append(n.func.id)
            deps[f] = calls
        done, res = set(), []

        def visit(f, stack):
            if f in done:
                return
            if f in stack:
                self.fail(self.defs[f], f"recursive function {f}")
            for g in deps[f]:
                visit(g, stack + [f])
            done.add(f)
            res.append(f)
        for f in self.wanted:
            visit(f, [])
        return res

    def translate(self):
        for f in self.order():
            fn = Fn(self, f, self.defs[f])
            self.out.extend(fn.translate())
            self.out.append("")
        return self.out


def names_assigned(nodes):
    """names bound by assignment statements / for targets / next() on an iterator inside `nodes`"""
    res = []

    def add(n):
        if n not in res:
            res.append(n)
    for top in nodes:
        for n in ast.walk(top):
            if isinstance(n, (ast.Assign,)):
                for t in n.targets:
                    if isinstance(t, ast.Name):
                        add(t.id)
            elif isinstance(n, ast.AugAssign) and isinstance(n.target, ast.Name):
                add(n.target.id)
            elif isinstance(n, ast.For) and isinstance(n.target, ast.Name):
                add(n.target.id)
            elif isinstance(n, ast.Call) and isinstance(n.func, ast.Name) and n.func.id == "next" \
                    and len(n.args) == 1 and isinstance(n.args[0], ast.Name):
                add(n.args[0].id)
            elif isinstance(n, ast.Call) and isinstance(n.func, ast.Attribute) and n.func.attr == "append" \
                    and isinstance(n.func.value, ast.Name):
                add(n.func.value.id)
            if isinstance(n, ast.Subscript) and isinstance(n.ctx, ast.Store):
                res.append("<subscript-store>")
    return res


def names_read(nodes):
    res = []
    for top in nodes:
        for n in ast.walk(top):
            if isinstance(n, ast.Name) and isinstance(n.ctx, ast.Load) and n.id not in res:
                res.append(n.id)
            elif isinstance(n, ast.AugAssign) and isinstance(n.target, ast.Name) and n.target.id not in res:
                res.append(n.target.id)
    return res


class Ctx:
    """what the control-flow exits of a statement list mean"""

    def __init__(self, fallthrough, ret, brk=None, cont=None):
        self.fallthrough, self.ret, self.brk, self.cont = fallthrough, ret, brk, cont


class Fn:
    def __init__(self, mod, name, node):
        self.mod, self.pyname, self.node = mod, name, node
        self.name = lname(name.replace(".", "_"))
        self.fail = mod.fail
        self.tmp = 0
        self.nloops = 0
        self.loopdefs = []
        a = node.args
        if a.vararg or a.kwarg or a.kwonlyargs or a.defaults or a.kw_defaults or a.posonlyargs:
            self.fail(node, "parameter list with defaults / * / ** / keyword-only parameters")
        static = False
        for d in node.decorator_list:
            if not (isinstance(d, ast.Name) and d.id == "staticmethod"):
                self.fail(node, "decorated function")
            static = True
        self.pyparams = [p.arg for p in a.args]
        self.records = {p: mod.records[(name, p)] for p in self.pyparams if (name, p) in mod.records}
        if "." in name and not static:
            # an ordinary method: `self` is a record of which only the declared attributes may be read (default: none)
            if not self.pyparams or self.pyparams[0] != "self":
                self.fail(node, "method whose first parameter is not `self`")
            self.records.setdefault("self", Record([]))
        self.views = {}                 # local name -> (bytearray parameter, length): `bv = BitView(data, 0, length)`
        # a parameter that is the target of `p[a:b] = v` is a BitView handed in by the caller: it is translated as the
        # underlying buffer plus its length (`p`, `p_len`), and the function is a PROCEDURE returning the final buffer
        self.view_params = []
        for n in ast.walk(node):
            if isinstance(n, ast.Subscript) and isinstance(n.ctx, ast.Store) and isinstance(n.slice, ast.Slice) \
                    and isinstance(n.value, ast.Name) and n.value.id in self.pyparams and n.value.id not in self.view_params:
                self.view_params.append(n.value.id)
        if len(self.view_params) > 1:
            self.fail(node, "more than one BitView parameter")
        for vp in self.view_params:
            self.views[vp] = (vp, lname(vp + "_len"))
        self.procedure = False
        self.types = {}
        for p in self.pyparams:
            if p not in self.records:
                self.types[p] = "list" if p in self.view_params else "int"
        self.first_seen = list(self.pyparams)
        self.infer_types()
        if self.view_params and not any(isinstance(n, ast.Return) for n in ast.walk(node)):
            self.procedure = True
            self.ret = "list"
        else:
            self.ret = self.infer_ret()

    # ------------------------------------------------------------------ type inference
    def set_type(self, node, name, t):
        if name in self.records:
            self.fail(node, f"assignment to record parameter {name}")
        old = self.types.get(name)
        if old is None:
            self.types[name] = t
            if name not in self.first_seen:
                self.first_seen.append(name)
            return True
        if old != t:
            if name in self.pyparams and old == "int" and t in ("iter", "list"):
                self.types[name] = t
                return True
            self.fail(node, f"variable {name} used with two types ({old}, {t})")
        return False

    def etype(self, e):
        """static type of an expression: int / bool / list, or None when not yet known"""
        if isinstance(e, ast.Constant):
            if isinstance(e.value, bool):
                return "bool"
            if isinstance(e.value, int):
                return "int"
            self.fail(e, f"constant of type {type(e.value).__name__}")
        if isinstance(e, ast.Name):
            return self.types.get(e.id)
        if isinstance(e, ast.Attribute):
            return "int"
        if isinstance(e, ast.BinOp):
            return "int"
        if isinstance(e, ast.UnaryOp):
            return "bool" if isinstance(e.op, ast.Not) else "int"
        if isinstance(e, (ast.Compare, ast.BoolOp)):
            return "bool"
        if isinstance(e, ast.IfExp):
            return self.etype(e.body) or self.etype(e.orelse)
        if isinstance(e, ast.List):
            return "list"
        if isinstance(e, ast.Call):
            if isinstance(e.func, ast.Name):
                f = e.func.id
                if f in ("bool", "isinstance"):
                    return "bool"
                if f in ("len", "abs", "int", "next"):
                    return "int"
                if f == "bytes":
                    return "list"
                if f in self.mod.sigs:
                    return self.mod.sigs[f].ret
                if f in self.mod.externals:
                    return self.mod.externals[f].ret
            if isinstance(e.func, ast.Attribute) and e.func.attr == "bit_length":
                return "int"
        self.fail(e, f"expression {type(e).__name__}")

    # -- bytearray parameters: `bv = BitView(data, 0, L)`, `bv[a:b] = v`, `data[i] = v`, `data[i] |= v`
    def bitview_new(self, n):
        """`x = BitView(<parameter>, 0, <int literal>)` -> (x, parameter, length) or None"""
        if isinstance(n, ast.Assign) and len(n.targets) == 1 and isinstance(n.targets[0], ast.Name) \
                and isinstance(n.value, ast.Call) and isinstance(n.value.func, ast.Name) and n.value.func.id == "BitView":
            c = n.value
            if self.mod.imported.get("BitView") != ("bitfun", "BitView"):
                self.fail(n, "BitView that is not imported from ...utils.bitfun")
            if c.keywords or len(c.args) != 3 or not isinstance(c.args[0], ast.Name) or c.args[0].id not in self.pyparams \
                    or self.int_lit(c.args[1]) != 0 or self.int_lit(c.args[2]) is None or self.int_lit(c.args[2]) <= 0:
                self.fail(n, "BitView(..) other than BitView(<parameter>, 0, <positive int literal>)")
            return n.targets[0].id, c.args[0].id, self.int_lit(c.args[2])
        return None

    def view_store(self, n):
        """`bv[a:b] = e` with int literals a, b on a BitView local -> (view name, a, b, e) or None"""
        if isinstance(n, ast.Assign) and len(n.targets) == 1 and isinstance(n.targets[0], ast.Subscript):
            t = n.targets[0]
            if isinstance(t.value, ast.Name) and t.value.id in self.views and isinstance(t.slice, ast.Slice):
                lo = None if t.slice.lower is None else self.int_lit(t.slice.lower)
                hi = None if t.slice.upper is None else self.int_lit(t.slice.upper)
                if t.slice.step is not None or lo is None or hi is None or lo < 0 or hi < 0:
                    self.fail(n, "BitView slice whose bounds are not non-negative int literals")
                return t.value.id, lo, hi, n.value
        return None

    def byte_store(self, n):
        """`data[i] = e` / `data[i] |= e` with an int literal i on a bytearray parameter -> (data, i, op, e) or None"""
        if isinstance(n, ast.Assign) and len(n.targets) == 1:
            t, op, val = n.targets[0], "set", n.value
        elif isinstance(n, ast.AugAssign) and isinstance(n.op, ast.BitOr):
            t, op, val = n.target, "or", n.value
        else:
            return None
        if isinstance(t, ast.Subscript) and isinstance(t.value, ast.Name) and t.value.id in self.pyparams \
                and self.types.get(t.value.id) == "list" and not isinstance(t.slice, ast.Slice):
            i = self.int_lit(t.slice)
            if i is None or i < 0:
                self.fail(n, "byte index that is not a non-negative int literal")
            return t.value.id, i, op, val
        return None

    def infer_types(self):
        for n in ast.walk(self.node):
            v = self.bitview_new(n)
            if v:
                x, data, length = v
                if x in self.views or x in self.types:
                    self.fail(n, f"BitView local {x} bound twice / also used as a value")
                self.views[x] = (data, length)
                self.set_type(n, data, "list")
        # a parameter indexed with an int literal is a bytearray
        for n in ast.walk(self.node):
            if isinstance(n, ast.Subscript) and isinstance(n.value, ast.Name) and n.value.id in self.pyparams \
                    and isinstance(n.ctx, ast.Store) and not isinstance(n.slice, ast.Slice) and n.value.id not in self.records:
                self.set_type(n, n.value.id, "list")
        changed = True
        rounds = 0
        while changed:
            changed = False
            rounds += 1
            if rounds > 20:
                self.fail(self.node, "type inference does not converge")
            for n in ast.walk(self.node):
                if isinstance(n, ast.Assign):
                    if self.bitview_new(n) or self.view_store(n) or self.byte_store(n):
                        continue
                    if len(n.targets) != 1 or not isinstance(n.targets[0], ast.Name):
                        self.fail(n, "assignment target other than a single local name")
                    t = self.etype(n.value)
                    if t is not None:
                        changed |= self.set_type(n, n.targets[0].id, t)
                elif isinstance(n, ast.AugAssign):
                    if self.byte_store(n):
                        continue
                    if not isinstance(n.target, ast.Name):
                        self.fail(n, "augmented assignment to something other than a local name")
                    changed |= self.set_type(n, n.target.id, "int")
                elif isinstance(n, ast.For):
                    if not isinstance(n.target, ast.Name):
                        self.fail(n, "for-loop target other than a single name")
                    changed |= self.set_type(n, n.target.id, "int")
                elif isinstance(n, ast.Call) and isinstance(n.func, ast.Name) and n.func.id == "next":
                    if len(n.args) != 1 or not isinstance(n.args[0], ast.Name) or n.args[0].id not in self.pyparams:
                        self.fail(n, "next() on something other than a parameter")
                    changed |= self.set_type(n, n.args[0].id, "iter")
        for n in ast.walk(self.node):
            if isinstance(n, ast.Name) and n.id not in self.types and n.id not in self.records \
                    and n.id not in self.views and isinstance(n.ctx, ast.Store):
                self.fail(n, f"cannot type variable {n.id}")

    def infer_ret(self):
        ts = []
        for n in ast.walk(self.node):
            if isinstance(n, (ast.FunctionDef, ast.Lambda, ast.AsyncFunctionDef)) and n is not self.node:
                self.fail(n, "nested function / lambda")
            if isinstance(n, ast.Return):
                if n.value is None:
                    self.fail(n, "return without a value")
                t = self.etype(n.value)
                if t is None:
                    self.fail(n, "cannot type returned expression")
                if t not in ts:
                    ts.append(t)
        if len(ts) != 1:
            self.fail(self.node, "function without a return value or with returns of different types")
        return ts[0]

    # ------------------------------------------------------------------ helpers
    def fresh(self, p="_t"):
        self.tmp += 1
        return f"{p}{self.tmp}"

    def lparams(self):
        """Lean parameter list (names, types) of the function"""
        res = []
        for p in self.pyparams:
            if p in self.records:
                for a in self.records[p].attrs:
                    res.append((lname(f"{p}_{a}".replace("is:", "is_")), "Int"))
            else:
                res.append((lname(p), LEAN_TYPE[self.types[p]]))
                if p in self.view_params:
                    res.append((lname(p + "_len"), "Nat"))
        return res

    def iter_params(self):
        return [p for p in self.pyparams if self.types.get(p) == "iter"]

    def ret_lean_type(self):
        t = LEAN_TYPE[self.ret]
        for _ in self.iter_params():
            t += " × List Int"
        return t

    def ret_term(self, term):
        its = self.iter_params()
        if not its:
            return term
        return "(" + ", ".join([term] + [lname(p) for p in its]) + ")"

    @staticmethod
    def binds(pre, lines):
        return [f"PyRt.bind ({m}) fun {v} =>" for v, m in pre] + lines

    # ------------------------------------------------------------------ expressions
    def int_lit(self, e):
        """value of a (possibly negated) int literal, else None"""
        if isinstance(e, ast.Constant) and isinstance(e.value, int) and not isinstance(e.value, bool):
            return e.value
        if isinstance(e, ast.UnaryOp) and isinstance(e.op, ast.USub):
            v = self.int_lit(e.operand)
            return None if v is None else -v
        return None

    def expr(self, e, defined, want=None):
        """-> (prelude [(var, monadic term)], pure Lean term, type).  `want` = type required by the context."""
        pre, term, t = self.expr0(e, defined)
        if want is not None and t != want:
            if want == "int" and t == "bool":
                if isinstance(e, ast.Constant):
                    term = "(1 : Int)" if e.value else "(0 : Int)"
                else:
                    term = f"(PyRt.ofBool {term})"
                t = "int"
            elif want == "bool":
                pre, prop = self.cond(e, defined)
                term, t = f"(decide {prop})", "bool"
            elif want == "list" and t == "iter" or want == "iter" and t == "list":
                t = want
            else:
                self.fail(e, f"expression of type {t} where {want} is required")
        return pre, term, t

    def expr0(self, e, defined):
        if isinstance(e, ast.Constant):
            if isinstance(e.value, bool):
                return [], "true" if e.value else "false", "bool"
            if isinstance(e.value, int):
                return [], f"({e.value} : Int)", "int"
            self.fail(e, f"constant of type {type(e.value).__name__}")
        if isinstance(e, ast.Name):
            if e.id in self.records:
                self.fail(e, f"record parameter {e.id} used as a value")
            if e.id not in self.types:
                self.fail(e, f"name {e.id} (not a parameter or local)")
            if e.id not in defined:
                self.fail(e, f"local {e.id} possibly read before assignment")
            return [], lname(e.id), self.types[e.id]
        if isinstance(e, ast.Attribute):
            if isinstance(e.value, ast.Name) and e.value.id in self.records:
                if e.attr not in self.records[e.value.id].attrs:
                    self.fail(e, f"attribute {e.value.id}.{e.attr} is not a declared int attribute")
                return [], lname(f"{e.value.id}_{e.attr}"), "int"
            self.fail(e, "attribute access")
        if isinstance(e, ast.UnaryOp):
            if isinstance(e.op, ast.Not):
                pre, p = self.cond(e, defined)
                return pre, f"(decide {p})", "bool"
            pre, a, _ = self.expr(e.operand, defined, "int")
            if isinstance(e.op, ast.USub):
                return pre, f"(-{a})", "int"
            if isinstance(e.op, ast.Invert):
                return pre, f"(PyInt.not {a})", "int"
            if isinstance(e.op, ast.UAdd):
                return pre, a, "int"
            self.fail(e, f"unary operator {type(e.op).__name__}")
        if isinstance(e, ast.BinOp):
            return self.binop(e, e.op, e.left, e.right, defined)
        if isinstance(e, ast.BoolOp):
            # `a and b` / `a or b` used for its VALUE is one of the operands, not a truth value:
            # only when every operand is a bool do the two coincide
            for v in e.values:
                if self.etype(v) != "bool":
                    self.fail(e, "and/or used for its value on non-bool operands")
        if isinstance(e, (ast.Compare, ast.BoolOp)):
            pre, p = self.cond(e, defined)
            return pre, f"(decide {p})", "bool"
        if isinstance(e, ast.IfExp):
            pre, c = self.cond(e.test, defined)
            p1, a, ta = self.expr(e.body, defined)
            p2, b, tb = self.expr(e.orelse, defined)
            if ta != tb:
                self.fail(e, "conditional expression whose branches have different types")
            if p1 or p2:
                self.fail(e, "conditional expression with a possibly-raising branch")
            return pre, f"(if {c} then {a} else {b})", ta
        if isinstance(e, ast.List):
            pre, items = [], []
            for x in e.elts:
                p, a, _ = self.expr(x, defined, "int")
                pre += p
                items.append(a)
            return pre, "([" + ", ".join(items) + "] : List Int)", "list"
        if isinstance(e, ast.Call):
            return self.call(e, defined)
        self.fail(e, f"expression {type(e).__name__}")

    def binop(self, node, op, left, right, defined):
        p1, a, _ = self.expr(left, defined, "int")
        p2, b, _ = self.expr(right, defined, "int")
        pre = p1 + p2
        lit = self.int_lit(right)
        if isinstance(op, ast.Add):
            return pre, f"({a} + {b})", "int"
        if isinstance(op, ast.Sub):
            return pre, f"({a} - {b})", "int"
        if isinstance(op, ast.Mult):
            return pre, f"({a} * {b})", "int"
        if isinstance(op, ast.BitAnd):
            return pre, f"(PyInt.and {a} {b})", "int"
        if isinstance(op, ast.BitOr):
            return pre, f"(PyInt.or {a} {b})", "int"
        if isinstance(op, ast.BitXor):
            return pre, f"(PyInt.xor {a} {b})", "int"
        if isinstance(op, (ast.FloorDiv, ast.Mod)):
            pure, mon = ("Int.fdiv", "PyRt.floordiv") if isinstance(op, ast.FloorDiv) else ("Int.fmod", "PyRt.mod")
            if lit is not None and lit != 0:
                return pre, f"({pure} {a} {b})", "int"
            v = self.fresh()
            return pre + [(v, f"{mon} {a} {b}")], v, "int"
        if isinstance(op, (ast.LShift, ast.RShift, ast.Pow)):
            if lit is not None and lit >= 0:
                if isinstance(op, ast.Pow):
                    return pre, f"({a} ^ ({lit} : Nat))", "int"
                pure = "PyRt.shlN" if isinstance(op, ast.LShift) else "PyRt.shrN"
                return pre, f"({pure} {a} {lit})", "int"
            mon = {ast.LShift: "PyRt.shl", ast.RShift: "PyRt.shr", ast.Pow: "PyRt.pow"}[type(op)]
            v = self.fresh()
            return pre + [(v, f"{mon} {a} {b}")], v, "int"
        self.fail(node, f"binary operator {type(op).__name__}")

    def call(self, e, defined):
        if e.keywords:
            self.fail(e, "call with keyword arguments")
        if isinstance(e.func, ast.Attribute):
            if e.func.attr == "bit_length" and not e.args:
                pre, a, _ = self.expr(e.func.value, defined, "int")
                return pre, f"(PyRt.bitLength {a})", "int"
            self.fail(e, f"method call .{e.func.attr}()")
        if not isinstance(e.func, ast.Name):
            self.fail(e, "call of a computed function")
        f = e.func.id
        if any(isinstance(a, ast.Starred) for a in e.args):
            self.fail(e, "call with * arguments")
        if f == "bool" and len(e.args) == 1:
            pre, p = self.cond(e.args[0], defined)
            return pre, f"(decide {p})", "bool"
        if f == "isinstance":
            pre, p = self.cond(e, defined)
            return pre, f"(decide {p})", "bool"
        if f == "len" and len(e.args) == 1:
            pre, a, t = self.expr(e.args[0], defined)
            if t != "list":
                self.fail(e, "len() of something other than a list / bytes")
            return pre, f"(PyRt.len {a})", "int"
        if f == "abs" and len(e.args) == 1:
            pre, a, _ = self.expr(e.args[0], defined, "int")
            return pre, f"(PyRt.abs {a})", "int"
        if f == "int" and len(e.args) == 1:
            pre, a, t = self.expr(e.args[0], defined)
            if t != "int":
                self.fail(e, "int() of something other than an int")
            return pre, a, "int"
        if f == "bytes" and len(e.args) == 1:
            pre, a, t = self.expr(e.args[0], defined)
            if t != "list":
                self.fail(e, "bytes() of something other than a list of ints")
            v = self.fresh()
            return pre + [(v, f"PyRt.mkBytes {a}")], v, "list"
        if f == "next" and len(e.args) == 1:
            self.fail(e, "next() outside the form `x = next(it)`")
        if f in self.mod.sigs:
            sig = self.mod.sigs[f]
            if sig.has_iter:
                self.fail(e, f"call of {f}, which consumes an iterator")
            if sig.procedure:
                self.fail(e, f"value of {f}(..), which returns None")
            if len(e.args) != len(sig.params):
                self.fail(e, f"call of {f} with {len(e.args)} arguments")
            pre, args = [], []
            for a, (pn, pt) in zip(e.args, zip(sig.params, sig.ptypes)):
                if pt == "record":
                    if not (isinstance(a, ast.Name) and a.id in self.records):
                        self.fail(a, "record argument that is not a record parameter")
                    want = self.mod.records[(f, pn)].attrs
                    for at in want:
                        if at not in self.records[a.id].attrs:
                            self.fail(a, f"record argument lacks attribute {at}")
                        args.append(lname(f"{a.id}_{at}".replace("is:", "is_")))
                    continue
                p, t, _ = self.expr(a, defined, pt)
                pre += p
                args.append(t)
            v = self.fresh()
            return pre + [(v, f"{lname(f)} fuel " + " ".join(args))], v, sig.ret
        if f in self.mod.externals:
            x = self.mod.externals[f]
            if self.mod.imported.get(f) != (x.from_module, f.split(".")[-1]):
                self.fail(e, f"call of {f}, which is not imported from a module named {x.from_module}")
            if len(e.args) != len(x.ptypes):
                self.fail(e, f"call of {f} with {len(e.args)} arguments")
            pre, args = [], []
            for a, pt in zip(e.args, x.ptypes):
                p, t, _ = self.expr(a, defined, pt)
                pre += p
                args.append(t)
            if x not in self.mod.used_externals:
                self.mod.used_externals.append(x)
            v = self.fresh()
            return pre + [(v, f"{x.lean} fuel " + " ".join(args))], v, x.ret
        self.fail(e, f"call of {f}")

    # ------------------------------------------------------------------ conditions (Lean Prop, decidable)
    def cond(self, e, defined):
        """-> (prelude, Lean Prop term) for the truth value of `e`"""
        if isinstance(e, ast.Constant) and isinstance(e.value, bool):
            return [], "True" if e.value else "False"
        if isinstance(e, ast.UnaryOp) and isinstance(e.op, ast.Not):
            pre, p = self.cond(e.operand, defined)
            return pre, f"(¬ {p})"
        if isinstance(e, ast.BoolOp):
            pre, ps = [], []
            for i, x in enumerate(e.values):
                p, c = self.cond(x, defined)
                if i > 0 and p:
                    self.fail(x, "possibly-raising operand under short-circuit and/or")
                pre += p
                ps.append(c)
            j = " ∧ " if isinstance(e.op, ast.And) else " ∨ "
            return pre, "(" + j.join(ps) + ")"
        if isinstance(e, ast.Compare):
            pre, parts = [], []
            p, left, _ = self.expr(e.left, defined, "int")
            pre += p
            for i, (op, right) in enumerate(zip(e.ops, e.comparators)):
                if isinstance(op, (ast.In, ast.NotIn)):
                    if not self.is_range(right):
                        self.fail(e, "`in` with something other than range(..)")
                    rp, lo, hi, step = self.range_args(right, defined)
                    if i > 0 and rp:
                        self.fail(right, "possibly-raising operand in a chained comparison")
                    pre += rp
                    if step < 1:
                        self.fail(right, "`in range` with a negative step")
                    c = f"({lo} ≤ {left} ∧ {left} < {hi})"
                    if step != 1:
                        c = f"({lo} ≤ {left} ∧ {left} < {hi} ∧ Int.fmod ({left} - {lo}) ({step} : Int) = 0)"
                    parts.append(c if isinstance(op, ast.In) else f"(¬ {c})")
                    if len(e.ops) > 1:
                        self.fail(e, "chained comparison with `in`")
                    continue
                rp, r, _ = self.expr(right, defined, "int")
                if i > 0 and rp:
                    self.fail(right, "possibly-raising operand in a chained comparison")
                pre += rp
                sym = {ast.Eq: "=", ast.NotEq: "≠", ast.Lt: "<", ast.LtE: "≤", ast.Gt: ">", ast.GtE: "≥"}.get(type(op))
                if sym is None:
                    self.fail(e, f"comparison operator {type(op).__name__}")
                parts.append(f"({left} {sym} {r})")
                left = r
            return pre, parts[0] if len(parts) == 1 else "(" + " ∧ ".join(parts) + ")"
        if isinstance(e, ast.Call) and isinstance(e.func, ast.Name) and e.func.id == "bool" and len(e.args) == 1 \
                and not e.keywords:
            return self.cond(e.args[0], defined)
        if isinstance(e, ast.Call) and isinstance(e.func, ast.Name) and e.func.id == "isinstance":
            if len(e.args) == 2 and isinstance(e.args[0], ast.Name) and e.args[0].id in self.pyparams \
                    and self.types.get(e.args[0].id) == "int" and isinstance(e.args[1], ast.Name) and e.args[1].id == "int":
                return [], "True"
            # isinstance(<record parameter>, <Class>) is one more declared int attribute `is:<Class>` of the record
            if len(e.args) == 2 and isinstance(e.args[0], ast.Name) and e.args[0].id in self.records \
                    and isinstance(e.args[1], (ast.Name, ast.Attribute)) and not e.keywords:
                cls = e.args[1].id if isinstance(e.args[1], ast.Name) else e.args[1].attr
                if f"is:{cls}" in self.records[e.args[0].id].attrs:
                    return [], "(" + lname(f"{e.args[0].id}_is_{cls}") + " ≠ 0)"
            self.fail(e, "isinstance other than isinstance(<int parameter>, int)")
        pre, a, t = self.expr(e, defined)
        if t == "bool":
            return pre, f"({a} = true)"
        if t == "int":
            return pre, f"({a} ≠ 0)"
        return pre, f"({a} ≠ [])"

    @staticmethod
    def is_range(e):
        return isinstance(e, ast.Call) and isinstance(e.func, ast.Name) and e.func.id == "range" and not e.keywords

    def range_args(self, e, defined):
        """range(..) -> (prelude, start term, stop term, literal step)"""
        n = len(e.args)
        if n not in (1, 2, 3):
            self.fail(e, "range() with a wrong number of arguments")
        pre = []
        if n == 1:
            lo = "(0 : Int)"
            p, hi, _ = self.expr(e.args[0], defined, "int")
            pre += p
            step = 1
        else:
            p, lo, _ = self.expr(e.args[0], defined, "int")
            pre += p
            p, hi, _ = self.expr(e.args[1], defined, "int")
            pre += p
            step = 1
            if n == 3:
                step = self.int_lit(e.args[2])
                if step is None or step == 0:
                    self.fail(e, "range() step that is not a non-zero int literal")
        return pre, lo, hi, step

    def check_message(self, e):
        """argument of an exception constructor: evaluated for nothing but its text; must be free of effects"""
        if isinstance(e, ast.Constant) and isinstance(e.value, str):
            return
        if isinstance(e, ast.JoinedStr):
            for v in e.values:
                if isinstance(v, ast.Constant):
                    continue
                if isinstance(v, ast.FormattedValue) and v.format_spec is None:
                    x = v.value
                    if isinstance(x, ast.Name) and (x.id in self.types):
                        continue
                    if isinstance(x, ast.Call) and isinstance(x.func, ast.Name) and x.func.id in ("type", "hex", "repr", "str") \
                            and len(x.args) == 1 and isinstance(x.args[0], ast.Name) and x.args[0].id in self.types:
                        continue
                self.fail(e, "exception message with a computed part other than a local name")
            return
        if isinstance(e, ast.BinOp) and isinstance(e.op, ast.Add):
            self.check_message(e.left)
            self.check_message(e.right)
            return
        if isinstance(e, ast.Call) and isinstance(e.func, ast.Name) and e.func.id in ("str", "hex", "repr") and not e.keywords \
                and len(e.args) == 1 and isinstance(e.args[0], ast.Name) and e.args[0].id in self.types:
            return
        self.fail(e, "exception argument other than a message string")

    # ------------------------------------------------------------------ statements
    def block(self, stmts, defined, ctx):
        """Lean lines (a term of type Except PyErr _) for `stmts` followed by the exits of `ctx`"""
        if not stmts:
            return ctx.fallthrough(defined)
        s, rest = stmts[0], stmts[1:]
        if isinstance(s, ast.Expr) and isinstance(s.value, ast.Constant) and isinstance(s.value.value, str):
            return self.block(rest, defined, ctx)            # docstring
        if isinstance(s, ast.Pass):
            return self.block(rest, defined, ctx)
        if self.bitview_new(s):
            return self.block(rest, defined, ctx)            # the view is an alias of the parameter; no code
        vs = self.view_store(s)
        if vs:
            view, lo, hi, val = vs
            data, length = self.views[view]
            pre, term, _ = self.expr(val, defined, "int")
            v = self.fresh()
            return self.binds(pre + [(v, f"PyRt.bvSet {lname(data)} {length} {lo} {hi} {term}")],
                              [f"let {lname(data)} : List Int := {v}"]) + self.block(rest, defined, ctx)
        bs = self.byte_store(s)
        if bs:
            data, i, op, val = bs
            pre, term, _ = self.expr(val, defined, "int")
            v = self.fresh()
            prim = "PyRt.setByte" if op == "set" else "PyRt.orByte"
            return self.binds(pre + [(v, f"{prim} {lname(data)} {i} {term}")],
                              [f"let {lname(data)} : List Int := {v}"]) + self.block(rest, defined, ctx)
        if isinstance(s, ast.Assign):
            x = s.targets[0].id
            if isinstance(s.value, ast.Call) and isinstance(s.value.func, ast.Name) and s.value.func.id == "next":
                it = s.value.args[0].id
                v = self.fresh()
                lines = [f"PyRt.bind (PyRt.next {lname(it)}) fun {v} =>",
                         f"let {lname(x)} : Int := {v}.1",
                         f"let {lname(it)} : List Int := {v}.2"]
                return lines + self.block(rest, defined | {x}, ctx)
            pre, term, _ = self.expr(s.value, defined, self.types[x])
            return self.binds(pre, [f"let {lname(x)} : {LEAN_TYPE[self.types[x]]} := {term}"]) \
                + self.block(rest, defined | {x}, ctx)
        if isinstance(s, ast.AugAssign):
            x = s.target.id
            if self.types.get(x) != "int":
                self.fail(s, "augmented assignment to a non-int local")
            load = ast.copy_location(ast.Name(id=x, ctx=ast.Load()), s)
            pre, term, _ = self.binop(s, s.op, load, s.value, defined)
            return self.binds(pre, [f"let {lname(x)} : Int := {term}"]) + self.block(rest, defined | {x}, ctx)
        if isinstance(s, ast.Expr) and isinstance(s.value, ast.Call) and isinstance(s.value.func, ast.Name) \
                and s.value.func.id in self.mod.sigs and self.mod.sigs[s.value.func.id].procedure:
            c = s.value
            sig = self.mod.sigs[c.func.id]
            if c.keywords or len(c.args) != len(sig.params):
                self.fail(s, f"call of {c.func.id} with a wrong argument list")
            pre, args, target = [], [], None
            for a, pt in zip(c.args, sig.ptypes):
                if pt == "view":
                    if not (isinstance(a, ast.Name) and a.id in self.views):
                        self.fail(a, "BitView argument that is not a BitView local")
                    target, length = self.views[a.id]
                    args += [lname(target), str(length)]
                elif pt == "record":
                    self.fail(a, "record argument of a procedure")
                else:
                    p, t, _ = self.expr(a, defined, pt)
                    pre += p
                    args.append(t)
            v = self.fresh()
            return self.binds(pre + [(v, f"{lname(c.func.id)} fuel " + " ".join(args))],
                              [f"let {lname(target)} : List Int := {v}"]) + self.block(rest, defined, ctx)
        if isinstance(s, ast.Expr):
            c = s.value
            if isinstance(c, ast.Call) and isinstance(c.func, ast.Attribute) and c.func.attr == "append" \
                    and isinstance(c.func.value, ast.Name) and len(c.args) == 1 and not c.keywords:
                l = c.func.value.id
                if l in self.pyparams:
                    self.fail(s, "append to a parameter (mutation visible to the caller)")
                if self.types.get(l) != "list" or l not in defined:
                    self.fail(s, "append to something other than a local list")
                pre, term, _ = self.expr(c.args[0], defined, "int")
                return self.binds(pre, [f"let {lname(l)} : List Int := {lname(l)} ++ [{term}]"]) \
                    + self.block(rest, defined, ctx)
            self.fail(s, "expression statement")
        if isinstance(s, ast.If):
            pre, c = self.cond(s.test, defined)
            return self.binds(pre, [f"if {c} then"] + ind(self.block(s.body + rest, defined, ctx))
                              + ["else"] + ind(self.block(s.orelse + rest, defined, ctx)))
        if isinstance(s, ast.Assert):
            pre, c = self.cond(s.test, defined)
            if s.msg is not None:
                self.check_message(s.msg)
            return self.binds(pre, [f"if {c} then"] + ind(self.block(rest, defined, ctx))
                              + ["else", "  .error .AssertionError"])
        if isinstance(s, ast.Raise):
            if s.cause is not None or s.exc is None:
                self.fail(s, "raise without a class / with a cause")
            exc = s.exc
            if isinstance(exc, ast.Call):
                if exc.keywords:
                    self.fail(s, "exception constructed with keyword arguments")
                for a in exc.args:
                    self.check_message(a)
                exc = exc.func
            if not (isinstance(exc, ast.Name) and exc.id in PY_ERRORS):
                self.fail(s, "raise of an exception class without a PyErr constructor")
            return [f".error .{exc.id}"]
        if isinstance(s, ast.Return):
            pre, term, _ = self.expr(s.value, defined, self.ret)
            return self.binds(pre, ctx.ret(term))
        if isinstance(s, ast.Break):
            if ctx.brk is None:
                self.fail(s, "break outside a loop")
            return ctx.brk(defined)
        if isinstance(s, ast.Continue):
            if ctx.cont is None:
                self.fail(s, "continue outside a loop")
            return ctx.cont(defined)
        if isinstance(s, (ast.While, ast.For)):
            return self.loop(s, rest, defined, ctx)
        self.fail(s, f"statement {type(s).__name__}")

    def loop(self, s, rest, defined, ctx):
        if s.orelse:
            self.fail(s, "loop with an else clause")
        is_for = isinstance(s, ast.For)
        self.nloops += 1
        name = f"{self.name}_loop{self.nloops}"
        inner = [s.test] if not is_for else []
        assigned = names_assigned(s.body)
        if "<subscript-store>" in assigned:
            self.fail(s, "store through a BitView / byte index inside a loop")
        if is_for:
            if not self.is_range(s.iter):
                self.fail(s, "for-loop over something other than range(..)")
            tgt = s.target.id
            if tgt in assigned:
                self.fail(s, f"for-loop variable {tgt} assigned in the loop body")
            if tgt in defined:
                self.fail(s, f"for-loop variable {tgt} already in use before the loop")
        # names read outside this loop (anywhere else in the function)
        outside = []
        for top in self.node.body:
            outside += self.reads_excluding(top, s)
        if is_for and tgt in outside:
            self.fail(s, f"for-loop variable {tgt} read outside the loop")
        state = [v for v in self.first_seen if v in assigned and (v in defined or v in outside)]
        reads = names_read(inner + s.body)
        captured = [v for v in self.first_seen if v in reads and v not in state
                    and not (is_for and v == tgt) and v in self.types and v in defined]
        rec_caps = []
        for p in self.pyparams:
            if p in self.records and p in reads:
                rec_caps += [lname(f"{p}_{a}".replace("is:", "is_")) for a in self.records[p].attrs]
        has_ret = any(isinstance(n, ast.Return) for top in s.body for n in ast.walk(top))
        sty = " × ".join(LEAN_TYPE[self.types[v]] for v in state) if state else "Unit"
        stup = ("(" + ", ".join(lname(v) for v in state) + ")") if len(state) != 1 else lname(state[0])
        if not state:
            stup = "()"
        rty = f"PyRt.Ctl ({sty}) ({self.ret_lean_type()})" if has_ret else sty
        exits = []                    # `defined` sets at the normal exits of the loop

        def normal_exit(d):
            exits.append(set(d))
            return [f".ok (.next {stup})" if has_ret else f".ok {stup}"]

        lparams = [("fuel", "Nat")]
        if is_for:
            lparams += [("it_stop", "Int"), ("it", "Int")]
        lparams += [(lname(v), LEAN_TYPE[self.types[v]]) for v in state]
        lparams += [(lname(v), LEAN_TYPE[self.types[v]]) for v in captured] + [(r, "Int") for r in rec_caps]
        tail_args = " ".join([lname(v) for v in state] + [lname(v) for v in captured] + rec_caps)

        if is_for:
            rpre, lo, hi, step = self.range_args(s.iter, defined)
            nxt = f"(it + ({step} : Int))"

            def again(d):
                return [f"{name} fuel it_stop {nxt} {tail_args}".rstrip()]
        else:
            def again(d):
                return [f"{name} fuel {tail_args}".rstrip()]

        lctx = Ctx(fallthrough=again, cont=again, brk=normal_exit,
                   ret=(lambda term: [f".ok (.ret {self.ret_term(term)})"]))
        lctx.ret_raw = lambda rv: [f".ok (.ret {rv})"]
        # at the start of an iteration only what was defined at loop entry is known to be defined
        d0 = set(defined)
        if is_for:
            body = self.block(s.body, d0 | {tgt}, lctx)
            test = "it < it_stop" if step > 0 else "it > it_stop"
            it_lines = [f"if {test} then", f"  let {lname(tgt)} : Int := it"] + ind(body) + ["else"] + ind(normal_exit(d0))
        else:
            cpre, c = self.cond(s.test, d0)
            if c == "True" and not cpre:
                it_lines = self.block(s.body, d0, lctx)
            else:
                it_lines = self.binds(cpre, [f"if {c} then"] + ind(self.block(s.body, d0, lctx))
                                      + ["else"] + ind(normal_exit(d0)))
        sig = " ".join(f"({n} : {t})" for n, t in lparams)
        d = [f"def {name} {sig} : Except PyErr ({rty}) :=",
             "  match fuel with",
             "  | 0 => .error .FuelExhausted",
             "  | fuel + 1 =>"] + ind(it_lines, 4)
        # inner loops were appended to self.loopdefs while translating the body: they come first
        self.loopdefs.append(d)
        if not exits:
            after = None                  # the loop has no normal exit (only return / raise)
        else:
            after = set.intersection(*exits)
        inits = [lname(v) if v in defined else DUMMY[self.types[v]] for v in state]
        call_args = " ".join(inits + [lname(v) for v in captured] + rec_caps)
        sv = self.fresh("_s")
        if is_for:
            head = self.binds(rpre, [f"PyRt.bind ({name} fuel {hi} {lo} {call_args}".rstrip() + f") fun {sv} =>"])
        else:
            head = [f"PyRt.bind ({name} fuel {call_args}".rstrip() + f") fun {sv} =>"]

        def unpack(src):
            if len(state) == 0:
                return []
            if len(state) == 1:
                return [f"let {lname(state[0])} : {LEAN_TYPE[self.types[state[0]]]} := {src}"]
            res = []
            for i, v in enumerate(state):
                proj = src + ".2" * i + (".1" if i < len(state) - 1 else "")
                res.append(f"let {lname(v)} : {LEAN_TYPE[self.types[v]]} := {proj}")
            return res

        if has_ret:
            rv, nv = self.fresh("_r"), self.fresh("_s")
            # a `return` inside the loop returns from the function: hand the value to the enclosing exits.
            # iterator state travels inside the returned tuple already.
            lines = head + [f"match {sv} with", f"| .ret {rv} =>"] + ind(self.ret_passthrough(ctx, rv)) + [f"| .next {nv} =>"]
            if after is None:
                self.fail(s, "loop without a normal exit")
            lines += ind(unpack(nv) + self.block(rest, after, ctx))
            return lines
        if after is None:
            self.fail(s, "loop without a normal exit")
        return head + unpack(sv) + self.block(rest, after, ctx)

    def ret_passthrough(self, ctx, rv):
        """the value `rv` was produced by `.ok (.ret <full return tuple>)` in a loop: return it from here"""
        return ctx.ret_raw(rv)

    def reads_excluding(self, top, excl):
        res = []

        def walk(n):
            if n is excl:
                return
            if isinstance(n, ast.Name) and isinstance(n.ctx, ast.Load):
                res.append(n.id)
            if isinstance(n, ast.AugAssign) and isinstance(n.target, ast.Name):
                res.append(n.target.id)
            for c in ast.iter_child_nodes(n):
                walk(c)
        walk(top)
        return res

    # ------------------------------------------------------------------ the function
    def translate(self):
        defined = set(self.pyparams)

        def off_end(d):
            if self.procedure:
                return [f".ok {lname(self.view_params[0])}"]
            self.fail(self.node, "function that can fall off its end (returns None)")
        top = Ctx(fallthrough=off_end, ret=lambda term: [f".ok {self.ret_term(term)}"])
        top.ret_raw = lambda rv: [f".ok {rv}"]
        body = self.block(self.node.body, defined, top)
        sig = " ".join(f"({n} : {t})" for n, t in [("fuel", "Nat")] + self.lparams())
        out = []
        for d in self.loopdefs:
            out += d + [""]
        out += [f"def {self.name} {sig} : Except PyErr ({self.ret_lean_type()}) :="] + ind(body)
        ptypes = ["record" if p in self.records else ("view" if p in self.view_params else self.types[p])
                  for p in self.pyparams]
        self.mod.sigs[self.pyname] = FnSig(self.pyname, self.pyparams, ptypes, self.ret, bool(self.iter_params()),
                                           self.procedure)
        return out


def translate_source(text, filename, functions, lean_name, records=None, externals=None):
    mod = Module(text, filename, functions, records, externals)
    body = mod.translate()
    imports = []
    for x in mod.used_externals:
        if x.lean_import not in imports:
            imports.append(x.lean_import)
    head = [
        "import PpciVerif.Model.PyRt"] + [f"import {i}" for i in imports] + [
        "/-",
        f"GENERATED by translate/py2lean.py from {filename} -- do not edit.",
        "Functions: " + ", ".join(functions),
        "Semantics of the translation: translate/SEMANTICS.md.  Regenerated on every run of the",
        "checks that use it; rewritten only when the content changes.",
        "-/",
        "set_option linter.unusedVariables false",
        f"namespace Gen.{lean_name}",
        "open Model Model.PyRt",
        "",
    ]
    return "\n".join(head + body + [f"end Gen.{lean_name}", ""])


def write_if_changed(path, text):
    """write `text` to `path` only when the content differs, atomically (temp file + rename), so that a
    concurrent reader (another check building the same tree) never sees a half-written Gen file"""
    import os
    import tempfile
    path = Path(path)
    if path.exists() and path.read_text() == text:
        return False
    fd, tmp = tempfile.mkstemp(prefix="." + path.name + ".", suffix=".tmp", dir=str(path.parent))
    with os.fdopen(fd, "w") as f:
        f.write(text)
    os.replace(tmp, path)
    return True


def regen_text(text, filename, functions, lean_name, records=None, externals=None):
    """translate the given source text (`filename` is only used in messages and in the file header)"""
    out = translate_source(text, filename, functions, lean_name, records, externals)
    p = GEN / f"{lean_name}.lean"
    return p, write_if_changed(p, out)


def regen(repo, relpath, functions, lean_name, records=None, externals=None):
    """translate <repo>/<relpath>; write Gen/<lean_name>.lean only when the content changes"""
    src = Path(repo) / relpath
    try:
        text = src.read_text()
    except OSError:
        raise Untranslatable(f"untranslatable: source file missing at {relpath}:0")
    return regen_text(text, relpath, functions, lean_name, records, externals)


if __name__ == "__main__":
    import sys
    repo, rel, lean_name = sys.argv[1:4]
    print(translate_source((Path(repo) / rel).read_text(), rel, sys.argv[4:], lean_name))
