"""T2 dump for C09: instruction syntaxes and the generated assembler grammar of every
assembler configuration ppci can build.

Everything comes from live objects (nothing reads source text):

  configuration  = (key, target name, options)    one `arch.assembler` each
  keywords       = `assembler.lexer.kws`
  regClasses     = every Register class that occurs as an operand class of a reachable syntax:
                   for each register of `cls.all_registers()` the printed name `str(reg)` and
                   the pieces the REAL lexer splits it into (`r1:r0` -> word r1, glyph :, word r0)
  syntaxes       = every class of `arch.isa.instructions` that has a syntax, and every
                   constructor class reachable through operand classes, with its syntax
                   elements in order: word / whitespace / glyph / operand(kind)
  grammar        = `assembler.parser.g.productions` in order: lhs, rhs (terminal / nonterminal),
                   priority.  Nonterminal names that embed `id()` (`w00t1397…`) are renamed to
                   `w00t#k` by order of first appearance so the dump is stable between runs.

Lean types: lean/PpciVerif/Model/AsmSyn.lean.  Output: lean/PpciVerif/Gen/Asm_<key>.lean and
lean/PpciVerif/Gen/AsmAll.lean (list of all configurations).  Files are only rewritten when
their content changes.
"""
import os
import sys
from pathlib import Path

VERIF = Path(__file__).resolve().parent.parent
REPO = Path(os.environ.get("PPCI_REPO", "/repo"))
GEN = VERIF / "lean" / "PpciVerif" / "Gen"

if str(REPO) not in sys.path:
    sys.path.insert(0, str(REPO))

# (key, target, options)
CONFIGS = [
    ("arm", "arm", ()),
    ("thumb", "arm", ("thumb",)),
    ("avr", "avr", ()),
    ("m68k", "m68k", ()),
    ("mcs6500", "mcs6500", ()),
    ("microblaze", "microblaze", ()),
    ("mips", "mips", ()),
    ("msp430", "msp430", ()),
    ("or1k", "or1k", ()),
    ("riscv", "riscv", ()),
    ("rvc", "riscv", ("rvc",)),
    ("rvf", "riscv", ("rvf",)),
    ("rvfx", "riscv", ("rvfx",)),
    ("stm8", "stm8", ()),
    ("x86_64", "x86_64", ()),
    ("x87", "x86_64", ("x87",)),
    ("xtensa", "xtensa", ()),
]


class Untranslatable(Exception):
    pass


def make_arch(key):
    from ppci.arch.target_list import create_arch
    for k, t, o in CONFIGS:
        if k == key:
            return create_arch(t, options=o)
    raise KeyError(key)


def operand_kind(op):
    """('reg', cls) | ('int',) | ('str',) | ('cons', (classes…)) | ('other', description)"""
    from ppci.arch.registers import Register
    from ppci.arch.encoding import Constructor
    k = op._cls
    if isinstance(k, tuple):
        return ("cons", tuple(k))
    if isinstance(k, type):
        if issubclass(k, Register):
            return ("reg", k)
        if issubclass(k, Constructor):
            return ("cons", (k,))
        if k is int:
            return ("int",)
        if k is str:
            return ("str",)
        return ("other", k.__name__)
    return ("other", repr(k))


class Config:
    """One assembler configuration with everything the dump and the harness need."""

    def __init__(self, key):
        from ppci.arch.encoding import Operand
        self.key = key
        self.arch = make_arch(key)
        self.asm = self.arch.assembler
        self.instructions = [c for c in self.arch.isa.instructions if c.syntax]
        # reachable syntax classes, instruction classes first (in isa order), then constructors
        order, seen = [], set()

        def walk(c):
            if c in seen:
                return
            seen.add(c)
            order.append(c)
            if c.syntax is None:
                raise Untranslatable(f"{key}: constructor {c} without syntax is an operand option")
            for e in c.syntax.syntax:
                if isinstance(e, Operand):
                    kd = operand_kind(e)
                    if kd[0] == "cons":
                        for s in kd[1]:
                            walk(s)
        for c in self.instructions:
            walk(c)
        ins_set = set(self.instructions)
        self.classes = list(self.instructions) + [c for c in order if c not in ins_set]
        cnt, self.name_of = {}, {}
        for c in self.classes:
            n = c.__name__
            k = cnt.get(n, 0) + 1
            cnt[n] = k
            self.name_of[c] = n if k == 1 else f"{n}#{k}"
        self.class_of = {v: k for k, v in self.name_of.items()}
        # register classes
        self.reg_classes = []
        for c in self.classes:
            for e in c.syntax.syntax:
                if isinstance(e, Operand):
                    kd = operand_kind(e)
                    if kd[0] == "reg" and kd[1] not in self.reg_classes:
                        self.reg_classes.append(kd[1])
        rc, self.regcls_name = {}, {}
        for c in self.reg_classes:
            n = c.__name__
            k = rc.get(n, 0) + 1
            rc[n] = k
            self.regcls_name[c] = n if k == 1 else f"{n}#{k}"
        # grammar with stable nonterminal names
        g = self.asm.parser.g
        self.nt_name = {}
        for p in g.productions:
            for s in [p.name] + list(p.symbols):
                if s in g.nonterminals and s not in self.nt_name:
                    if s.startswith("w00t"):
                        self.nt_name[s] = f"w00t#{sum(1 for v in self.nt_name.values() if v.startswith('w00t#'))}"
                    else:
                        self.nt_name[s] = s
        self.productions = list(g.productions)

    # ---- rows ------------------------------------------------------------
    def elements(self, cls):
        from ppci.arch.encoding import Operand, Syntax
        out = []
        for e in cls.syntax.syntax:
            if isinstance(e, str):
                if e.isspace():
                    out.append(("ws", e))
                elif e in Syntax.GLYPHS:
                    out.append(("glyph", e))
                else:
                    out.append(("word", e))
            elif isinstance(e, Operand):
                kd = operand_kind(e)
                if kd[0] == "reg":
                    out.append(("op", e._name, ("reg", self.reg_classes.index(kd[1]))))
                elif kd[0] == "cons":
                    out.append(("op", e._name, ("cons", [self.classes.index(c) for c in kd[1]])))
                else:
                    out.append(("op", e._name, kd))
            else:
                raise Untranslatable(f"{cls}: syntax element {e!r}")
        return out

    def reg_rows(self, rcls):
        rows = []
        for r in rcls.all_registers():
            name = str(r)
            pieces = []
            for t in self.asm.lexer.tokenize(name):
                if t.typ == "NUMBER" or t.typ in ("REAL", "STRING"):
                    raise Untranslatable(f"register name {name!r} contains a {t.typ} token")
                pieces.append(("glyph", t.val) if len(t.val) == 1 and not (t.val.isalnum() or t.val == "_")
                              else ("word", t.val))
            rows.append((name, pieces))
        return rows

    def ranks(self):
        """rank of every nonterminal = 1 + max rank of the nonterminals on its right-hand sides (0 for none);
        [] when the grammar is recursive (arm/thumb register lists)."""
        rows = self.grammar_rows()
        deps = {}
        for lhs, rhs, _p in rows:
            deps.setdefault(lhs, set()).update(s[1] for s in rhs if s[0] == "nt")
        for d in list(deps.values()):
            for n in d:
                deps.setdefault(n, set())
        rank, state = {}, {}

        def visit(n):
            if state.get(n) == 1:
                raise RecursionError(n)
            if n in rank:
                return rank[n]
            state[n] = 1
            r = 0
            for m in sorted(deps[n]):
                r = max(r, visit(m) + 1)
            state[n] = 2
            rank[n] = r
            return r
        try:
            for n in sorted(deps):
                visit(n)
        except RecursionError:
            return []
        return sorted(rank.items())

    def grammar_rows(self):
        g = self.asm.parser.g
        rows = []
        for p in self.productions:
            rhs = [("nt", self.nt_name[s]) if s in g.nonterminals else ("t", s) for s in p.symbols]
            rows.append((self.nt_name[p.name], rhs, int(p.priority)))
        return rows


# ----------------------------------------------------------------------------------------
# Lean emission


def lstr(s):
    out = ['"']
    for ch in s:
        if ch == "\\":
            out.append("\\\\")
        elif ch == '"':
            out.append('\\"')
        elif ch == "\n":
            out.append("\\n")
        elif ch == "\t":
            out.append("\\t")
        elif ord(ch) < 32 or ord(ch) > 126:
            out.append("\\u{%x}" % ord(ch))
        else:
            out.append(ch)
    out.append('"')
    return "".join(out)


def lchar(c):
    if c == "'":
        return "'\\''"
    if c == "\\":
        return "'\\\\'"
    return f"'{c}'"


def llist(xs):
    return "[" + ", ".join(xs) + "]"


def lean_kind(k):
    if k[0] == "reg":
        return f"(.reg {k[1]})"
    if k[0] == "int":
        return ".int"
    if k[0] == "str":
        return ".str"
    if k[0] == "cons":
        return f"(.cons {llist([str(n) for n in k[1]])})"
    return f"(.other {lstr(k[1])})"


def lean_elem(e):
    if e[0] == "ws":
        return f".ws {lstr(e[1])}"
    if e[0] == "glyph":
        return f".glyph {lchar(e[1])}"
    if e[0] == "word":
        return f".word {lstr(e[1])}"
    return f".op {lstr(e[1])} {lean_kind(e[2])}"


def lean_sym(s):
    return (f".nt {lstr(s[1])}" if s[0] == "nt" else f".t {lstr(s[1])}")


HEADER = ("/- GENERATED by translate/c09_tables.py from the live assembler `{key}` of the tree under check.\n"
          "   Do not edit: `regen(ctx)` of harness/c09.py rewrites this file whenever syntaxes or grammar change. -/\n")


def render_config(cfg):
    key = cfg.key
    out = [HEADER.format(key=key), f"import PpciVerif.Model.AsmSyn\nnamespace Gen.Asm_{key}\nopen Model.AsmSyn\n"]
    kws = sorted(cfg.asm.lexer.kws)
    out.append("def keywords : List String := " + llist([lstr(k) for k in kws]) + "\n")
    regs = []
    for rc in cfg.reg_classes:
        rows = cfg.reg_rows(rc)
        regs.append("  ⟨" + lstr(cfg.regcls_name[rc]) + ", [\n    "
                    + ",\n    ".join("⟨" + lstr(n) + ", " + llist([lean_elem(p) for p in ps]) + "⟩" for n, ps in rows)
                    + "]⟩")
    out.append("def regClasses : List RegClass := [\n" + ",\n".join(regs) + "]\n")
    ins_set = set(cfg.instructions)
    syns = []
    for c in cfg.classes:
        syns.append("  ⟨" + lstr(cfg.name_of[c]) + ", " + ("true" if c in ins_set else "false") + ", "
                    + str(int(c.syntax.priority)) + ", " + llist([lean_elem(e) for e in cfg.elements(c)]) + "⟩")
    out.append("def syntaxes : List SynDesc := [\n" + ",\n".join(syns) + "]\n")
    prods = []
    for lhs, rhs, prio in cfg.grammar_rows():
        prods.append("  ⟨" + lstr(lhs) + ", " + llist([lean_sym(s) for s in rhs]) + ", " + str(prio) + "⟩")
    out.append("def grammar : List Prod := [\n" + ",\n".join(prods) + "]\n")
    out.append("def ranks : List (String × Nat) := " + llist([f"({lstr(n)}, {r})" for n, r in cfg.ranks()]) + "\n")
    out.append(f"def config : Config := ⟨{lstr(key)}, keywords, regClasses, syntaxes, grammar, ranks⟩\n")
    out.append(f"end Gen.Asm_{key}\n")
    return "\n".join(out)


def render_all(keys):
    out = ["/- GENERATED by translate/c09_tables.py: all assembler configurations. -/\n"]
    for k in keys:
        out.append(f"import PpciVerif.Gen.Asm_{k}")
    out.append("\nnamespace Gen.AsmAll\nopen Model.AsmSyn\n")
    out.append("def all : List Config := [\n  " + ",\n  ".join(f"Gen.Asm_{k}.config" for k in keys) + "]\n")
    out.append("end Gen.AsmAll\n")
    return "\n".join(out)


def write_if_changed(path, text):
    if path.exists() and path.read_text() == text:
        return False
    path.parent.mkdir(parents=True, exist_ok=True)
    tmp = path.with_suffix(path.suffix + ".tmp")
    tmp.write_text(text)
    os.replace(tmp, path)
    return True


def regen(gen_dir=GEN):
    """Dump all configurations; returns ({key: Config}, [files rewritten])."""
    cfgs, changed = {}, []
    for key, _t, _o in CONFIGS:
        cfg = Config(key)
        cfgs[key] = cfg
        if write_if_changed(Path(gen_dir) / f"Asm_{key}.lean", render_config(cfg)):
            changed.append(f"Asm_{key}.lean")
    if write_if_changed(Path(gen_dir) / "AsmAll.lean", render_all([k for k, _t, _o in CONFIGS])):
        changed.append("AsmAll.lean")
    return cfgs, changed


if __name__ == "__main__":
    cfgs, changed = regen()
    for k, c in cfgs.items():
        print(f"{k:11s} instr={len(c.instructions):4d} syntaxes={len(c.classes):4d} regcls={len(c.reg_classes):2d} "
              f"prods={len(c.productions):4d} kws={len(c.asm.lexer.kws):4d}")
    print("rewritten:", changed)
