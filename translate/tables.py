"""T2 `tables` — introspection of the live ppci classes (DESIGN 2.3).

After `import ppci` (all modules under ppci.arch), collect for every architecture

  * token classes      name, size in bits, endianness, precode flag, every
                       `bit_range`/`bit_concat` property with its bit ranges and `signed` flag
  * instruction and    tokens, declarative `patterns` (fixed value / operand / transformed
    constructor        operand), operands with kind and read/write flags, syntax argument
    classes            order, whether `encode` / `set_user_patterns` / `relocations` are overridden
  * relocation classes name, token, field, number, size, whether calc/apply are overridden

and emit them as Lean literals into lean/PpciVerif/Gen/{Tokens,Instrs,Relocs}.lean,
one table per ISA (`def riscvTokens : List TokenDesc := [...]`).  Files are only
rewritten when their content changes.  The Lean types are in Model/Tables.lean,
the description for reuse in notes/TABLES.md.

`collect()` also returns the Python classes themselves, so harnesses can iterate
over exactly the rows that were dumped.

Nothing here reads source text: everything comes from live objects, so a change
of a class attribute, a field declaration or a pattern in /repo changes the table.
"""
import importlib
import inspect
import os
import pkgutil
import sys
from pathlib import Path

VERIF = Path(__file__).resolve().parent.parent
REPO = Path(os.environ.get("PPCI_REPO", "/repo"))
GEN = VERIF / "lean" / "PpciVerif" / "Gen"

if str(REPO) not in sys.path:
    sys.path.insert(0, str(REPO))


class Untranslatable(Exception):
    pass


# ISA key of a class = first module in its MRO that belongs to an architecture
MODULE_ISA = [
    ("ppci.arch.arm.thumb", "thumb"),
    ("ppci.arch.arm.vfp", "arm"),
    ("ppci.arch.arm", "arm"),
    ("ppci.arch.avr", "avr"),
    ("ppci.arch.m68k", "m68k"),
    ("ppci.arch.mcs6500", "mcs6500"),
    ("ppci.arch.microblaze", "microblaze"),
    ("ppci.arch.mips", "mips"),
    ("ppci.arch.msp430", "msp430"),
    ("ppci.arch.or1k", "or1k"),
    ("ppci.arch.riscv", "riscv"),
    ("ppci.arch.stm8", "stm8"),
    ("ppci.arch.x86_64", "x86_64"),
    ("ppci.arch.xtensa", "xtensa"),
    ("ppci.arch.data_instructions", "misc"),
    ("ppci.arch.generic_instructions", "misc"),
    ("ppci.arch.example", "misc"),
    ("ppci.arch.jvm", "misc"),
]
ISAS = ["arm", "thumb", "avr", "m68k", "mcs6500", "microblaze", "mips", "msp430", "or1k",
        "riscv", "stm8", "x86_64", "xtensa", "misc"]


def isa_of(cls):
    for k in cls.__mro__:
        m = getattr(k, "__module__", "") or ""
        for prefix, isa in MODULE_ISA:
            if m == prefix or m.startswith(prefix + ".") or m.startswith(prefix + "_"):
                return isa
    return None


def import_all():
    import ppci.arch as A
    failed = []
    for m in sorted(pkgutil.walk_packages(A.__path__, "ppci.arch."), key=lambda m: m.name):
        try:
            importlib.import_module(m.name)
        except Exception as e:  # ppci.arch.arm.vfp does not import on the pinned tree
            failed.append((m.name, f"{type(e).__name__}: {e}"))
    return failed


def all_subclasses(c):
    out, seen = [], set()

    def rec(k):
        for s in k.__subclasses__():
            if s not in seen:
                seen.add(s)
                out.append(s)
                rec(s)
    rec(c)
    return out


# ----------------------------------------------------------------------------------------
# fields


def field_info(p):
    """(concat?, [(b, e) ...] most significant first, signed) of a `_p2` property."""
    g = p.fget
    if g.__closure__ is None:
        raise Untranslatable(f"field getter without closure: {g}")
    fv = dict(zip(g.__code__.co_freevars, [c.cell_contents for c in g.__closure__]))
    if "partials" in fv:
        parts = []
        for q in fv["partials"]:
            _c, ps, _s = field_info(q)
            parts.extend(ps)
        signed = bool(fv["partials"][0]._signed)
        if signed != bool(p._signed):
            raise Untranslatable("bit_concat signed flag differs from that of its first partial")
        if sum(e - b for b, e in parts) != p._bitsize:
            raise Untranslatable("bit_concat size differs from the sum of its parts")
        return True, parts, signed
    if "b" in fv and "e" in fv:
        b, e = fv["b"], fv["e"]
        if e - b != p._bitsize or p._mask != (1 << (e - b)) - 1:
            raise Untranslatable("bit_range size/mask differ from e-b")
        return False, [(b, e)], bool(p._signed)
    raise Untranslatable(f"unknown field property shape: freevars {sorted(fv)}")


def token_fields(tcls):
    from ppci.arch.token import _p2
    out = []
    for n, v in inspect.getmembers(tcls):
        if isinstance(v, _p2):
            concat, parts, signed = field_info(v)
            out.append({"name": n, "concat": concat, "parts": parts, "signed": signed})
    return out


def token_row(tcls, name):
    from ppci.arch.arch_info import Endianness
    try:
        init = int(tcls().bit_value)
    except Exception as e:
        raise Untranslatable(f"{tcls}: cannot instantiate without arguments: {e}")
    if init < 0:
        raise Untranslatable(f"{tcls}: negative initial bit_value")
    return {
        "name": name, "cls": tcls, "size": tcls.Info.size, "init": init,
        "big": tcls.Info.endianness == Endianness.BIG,
        "precode": bool(tcls.Info.precode),
        "fields": token_fields(tcls),
    }


# ----------------------------------------------------------------------------------------
# instructions / constructors


def _func(f):
    return getattr(f, "__func__", f)


def overridden(cls, name, base):
    return _func(getattr(cls, name)) is not _func(getattr(base, name))


def operand_kind(op):
    from ppci.arch.registers import Register
    from ppci.arch.encoding import Constructor
    cls = op._cls
    if op._value_map is not None:
        opts = list(op._value_map.keys())
        return ("cons", opts, [int(op._value_map[k]) for k in opts])
    if isinstance(cls, tuple):
        return ("cons", list(cls), [])
    if isinstance(cls, type):
        if issubclass(cls, Register):
            mx = None
            try:
                regs = cls.all_registers()
                mx = max(r.num for r in regs)
            except Exception:
                mx = None
            return ("reg", cls.__name__, mx)
        if issubclass(cls, Constructor):
            return ("cons", [cls], [])
        if cls is int:
            return ("int",)
        if cls is str:
            return ("str",)
        return ("other", cls.__name__)
    return ("other", repr(cls))


def instr_row(cls, name):
    from ppci.arch.encoding import (Instruction, Constructor, Operand, Transform,
                                    FixedPattern, VariablePattern)
    pats = []
    for p in Constructor.dict_to_patterns(cls.patterns):
        if isinstance(p, FixedPattern):
            if not isinstance(p.value, int):
                raise Untranslatable(f"{cls}: fixed pattern with non-int value")
            pats.append({"field": p.field, "kind": "fixed", "value": int(p.value)})
        elif isinstance(p, VariablePattern):
            prop = p.prop
            if isinstance(prop, Transform):
                src = prop.source
                pats.append({"field": p.field, "kind": "transformed", "operand": src._name,
                             "transform": type(prop).__name__, "prop": prop})
            elif isinstance(prop, Operand):
                pats.append({"field": p.field, "kind": "operand", "operand": prop._name, "prop": prop})
            else:
                raise Untranslatable(f"{cls}: variable pattern on {prop!r}")
        else:
            raise Untranslatable(f"{cls}: unknown pattern {p!r}")
    ops = []
    for n, v in inspect.getmembers(cls):
        if isinstance(v, Operand):
            ops.append({"attr": n, "name": v._name, "kind": operand_kind(v), "read": bool(v._read),
                        "write": bool(v._write), "prop": v})
    syn = cls.syntax
    is_ins = issubclass(cls, Instruction)
    return {
        "name": name, "cls": cls, "is_instruction": is_ins,
        "has_tokens": hasattr(cls, "tokens"),
        "tokens": list(getattr(cls, "tokens", [])),
        "patterns": pats, "operands": ops,
        "syntax_args": [a._name for a in syn.formal_arguments] if syn is not None else [],
        "has_syntax": syn is not None,
        "encode_overridden": overridden(cls, "encode", Instruction) if is_ins else False,
        "user_patterns_overridden": overridden(cls, "set_user_patterns", Constructor),
        "relocs_overridden": (overridden(cls, "relocations", Instruction) if is_ins else False)
        or overridden(cls, "gen_relocations", Constructor),
    }


def reloc_row(cls, name):
    from ppci.arch.encoding import Relocation
    size = None
    try:
        size = int(cls.size())
    except Exception:
        size = None
    return {
        "cls_name": name, "cls": cls, "name": cls.name or "",
        "token": cls.token, "field": cls.field, "number": cls.number, "size": size,
        "calc_overridden": overridden(cls, "calc", Relocation),
        "apply_overridden": overridden(cls, "apply", Relocation),
    }


# ----------------------------------------------------------------------------------------


def unique_names(classes):
    """class -> name unique within the list (creation order decides the suffix)."""
    seen, out = {}, {}
    for c in classes:
        n = c.__name__
        k = seen.get(n, 0) + 1
        seen[n] = k
        out[c] = n if k == 1 else f"{n}#{k}"
    return out


def collect():
    """Return {'failed_imports': [...], 'isas': {isa: {'tokens': [...], 'instrs': [...], 'relocs': [...]}}}."""
    failed = import_all()
    from ppci.arch.encoding import Instruction, Constructor, Relocation
    from ppci.arch.token import Token

    toks = all_subclasses(Token)
    cons = all_subclasses(Constructor)       # includes Instruction and its subclasses
    rels = all_subclasses(Relocation)

    per = {i: {"tok": [], "ins": [], "rel": []} for i in ISAS}
    for r in rels:
        i = isa_of(r)
        if i is not None:
            per[i]["rel"].append(r)
    for c in cons:
        if c is Instruction:
            continue
        i = isa_of(c)
        if i is not None:
            per[i]["ins"].append(c)
    for t in toks:
        i = isa_of(t)
        if i is not None:
            per[i]["tok"].append(t)
    # close each ISA's token list under reference from its instructions/relocations
    for i in ISAS:
        have = set(per[i]["tok"])
        for c in per[i]["ins"]:
            for t in getattr(c, "tokens", []):
                if t not in have:
                    have.add(t)
                    per[i]["tok"].append(t)
        for r in per[i]["rel"]:
            if r.token is not None and r.token not in have:
                have.add(r.token)
                per[i]["tok"].append(r.token)
        # constructors of other ISAs referenced as operand options
        seen = set(per[i]["ins"])
        todo = list(per[i]["ins"])
        while todo:
            c = todo.pop()
            row_ops = [v for _n, v in inspect.getmembers(c) if v.__class__.__name__ == "Operand"]
            for v in row_ops:
                k = operand_kind(v)
                if k[0] == "cons":
                    for o in k[1]:
                        if o not in seen:
                            seen.add(o)
                            per[i]["ins"].append(o)
                            todo.append(o)
                            for t in getattr(o, "tokens", []):
                                if t not in have:
                                    have.add(t)
                                    per[i]["tok"].append(t)

    def key(c):
        return (c.__module__, c.__name__)

    out = {}
    for i in ISAS:
        tl = sorted(per[i]["tok"], key=key)
        il = sorted(per[i]["ins"], key=key)
        rl = sorted(per[i]["rel"], key=key)
        tn, inn, rn = unique_names(tl), unique_names(il), unique_names(rl)
        trows = [token_row(t, tn[t]) for t in tl]
        irows = []
        for c in il:
            row = instr_row(c, inn[c])
            row["token_names"] = [tn[t] for t in row["tokens"]]
            for o in row["operands"]:
                if o["kind"][0] == "cons":
                    o["kind"] = ("cons", [inn[k] for k in o["kind"][1]], o["kind"][2], o["kind"][1])
            irows.append(row)
        rrows = []
        for r in rl:
            row = reloc_row(r, rn[r])
            row["token_name"] = tn[r.token] if r.token is not None else None
            rrows.append(row)
        out[i] = {"tokens": trows, "instrs": irows, "relocs": rrows}
    return {"failed_imports": failed, "isas": out}


# ----------------------------------------------------------------------------------------
# Lean emission


def lstr(s):
    return '"' + s.replace("\\", "\\\\").replace('"', '\\"') + '"'


def lbool(b):
    return "true" if b else "false"


def lint(v):
    return str(v) if v >= 0 else f"({v})"


def lopt(v, f):
    return "none" if v is None else f"(some {f(v)})"


def llist(xs):
    return "[" + ", ".join(xs) + "]"


def lean_field(f):
    parts = llist([f"({b}, {e})" for b, e in f["parts"]])
    return f"⟨{lstr(f['name'])}, {lbool(f['concat'])}, {parts}, {lbool(f['signed'])}⟩"


def lean_token(t):
    fs = ",\n      ".join(lean_field(f) for f in t["fields"])
    return (f"  ⟨{lstr(t['name'])}, {t['size']}, {lbool(t['big'])}, {lbool(t['precode'])}, {t['init']}, [\n      {fs}]⟩"
            if t["fields"] else
            f"  ⟨{lstr(t['name'])}, {t['size']}, {lbool(t['big'])}, {lbool(t['precode'])}, {t['init']}, []⟩")


def lean_pat(p):
    if p["kind"] == "fixed":
        v = f".fixed {lint(p['value'])}"
    elif p["kind"] == "operand":
        v = f".operand {lstr(p['operand'])}"
    else:
        v = f".transformed {lstr(p['operand'])} {lstr(p['transform'])}"
    return f"⟨{lstr(p['field'])}, {v}⟩"


def lean_kind(k):
    if k[0] == "reg":
        return f".reg {lstr(k[1])} {lopt(k[2], str)}"
    if k[0] == "int":
        return ".int"
    if k[0] == "str":
        return ".str"
    if k[0] == "cons":
        return f".cons {llist([lstr(n) for n in k[1]])} {llist([lint(v) for v in k[2]])}"
    return f".other {lstr(k[1])}"


def lean_operand(o):
    return f"⟨{lstr(o['name'])}, {lean_kind(o['kind'])}, {lbool(o['read'])}, {lbool(o['write'])}⟩"


def lean_instr(r):
    return ("  { name := " + lstr(r["name"]) + ", isInstruction := " + lbool(r["is_instruction"])
            + ", hasTokens := " + lbool(r["has_tokens"])
            + ", tokens := " + llist([lstr(n) for n in r["token_names"]]) + ",\n"
            + "    patterns := " + llist([lean_pat(p) for p in r["patterns"]]) + ",\n"
            + "    operands := " + llist([lean_operand(o) for o in r["operands"]]) + ",\n"
            + "    syntaxArgs := " + llist([lstr(a) for a in r["syntax_args"]])
            + ", hasSyntax := " + lbool(r["has_syntax"])
            + ", encodeOverridden := " + lbool(r["encode_overridden"])
            + ", userPatternsOverridden := " + lbool(r["user_patterns_overridden"])
            + ", relocsOverridden := " + lbool(r["relocs_overridden"]) + " }")


def lean_reloc(r):
    return ("  ⟨" + ", ".join([
        lstr(r["cls_name"]), lstr(r["name"]), lopt(r["token_name"], lstr), lopt(r["field"], lstr),
        lopt(r["number"], lint), lopt(r["size"], str), lbool(r["calc_overridden"]), lbool(r["apply_overridden"]),
    ]) + "⟩")


HEADER = ("/- GENERATED by translate/tables.py from the live ppci classes of the tree under check.\n"
          "   Do not edit: `regen(ctx)` of harness/c10.py rewrites this file whenever the classes change. -/\n")


def lean_ident(isa):
    return {"x86_64": "x86_64"}.get(isa, isa)


def render(tabs):
    isas = tabs["isas"]
    tok = [HEADER, "import PpciVerif.Model.Tables\nnamespace Gen.Tokens\nopen Model.Tables\n"]
    ins = [HEADER, "import PpciVerif.Model.Tables\nnamespace Gen.Instrs\nopen Model.Tables\n"]
    rel = [HEADER, "import PpciVerif.Model.Tables\nnamespace Gen.Relocs\nopen Model.Tables\n"]
    for i in ISAS:
        d = isas[i]
        n = lean_ident(i)
        tok.append(f"def {n}Tokens : List TokenDesc := [\n" + ",\n".join(lean_token(t) for t in d["tokens"]) + "]\n")
        ins.append(f"def {n}Instrs : List InstrDesc := [\n" + ",\n".join(lean_instr(r) for r in d["instrs"]) + "]\n")
        rel.append(f"def {n}Relocs : List RelocDesc := [\n" + ",\n".join(lean_reloc(r) for r in d["relocs"]) + "]\n")
    names = llist([lstr(i) for i in ISAS])
    tok.append(f"def isaNames : List String := {names}\n")
    tok.append("def all : List (String × List TokenDesc) := [\n  "
               + ",\n  ".join(f"({lstr(i)}, {lean_ident(i)}Tokens)" for i in ISAS) + "]\n")
    ins.append("def all : List (String × List InstrDesc) := [\n  "
               + ",\n  ".join(f"({lstr(i)}, {lean_ident(i)}Instrs)" for i in ISAS) + "]\n")
    rel.append("def all : List (String × List RelocDesc) := [\n  "
               + ",\n  ".join(f"({lstr(i)}, {lean_ident(i)}Relocs)" for i in ISAS) + "]\n")
    tok.append("end Gen.Tokens\n")
    ins.append("end Gen.Instrs\n")
    rel.append("end Gen.Relocs\n")
    return {"Tokens.lean": "\n".join(tok), "Instrs.lean": "\n".join(ins), "Relocs.lean": "\n".join(rel)}


def write_if_changed(path, text):
    if path.exists() and path.read_text() == text:
        return False
    path.parent.mkdir(parents=True, exist_ok=True)
    tmp = path.with_suffix(path.suffix + ".tmp")
    tmp.write_text(text)
    os.replace(tmp, path)
    return True


def regen(gen_dir=GEN):
    """Dump the tables; returns (tabs, list of files rewritten)."""
    tabs = collect()
    changed = []
    for fn, text in render(tabs).items():
        if write_if_changed(Path(gen_dir) / fn, text):
            changed.append(fn)
    return tabs, changed


if __name__ == "__main__":
    tabs, changed = regen()
    for i in ISAS:
        d = tabs["isas"][i]
        print(f"{i:11s} tokens={len(d['tokens']):3d} instrs={len(d['instrs']):4d} relocs={len(d['relocs']):3d}")
    print("failed imports:", tabs["failed_imports"])
    print("rewritten:", changed)
